;; section fp
;; provides pow2fp
; A-POW: math.Pow(2, x) for integral 0 <= x <= 1023 is exactly 2^x, +Inf for integral x > 1023 (Go's math.Pow
; special-cases and its exact frexp/ldexp path for integral exponents); other arguments are left unconstrained.
(declare-fun pow2fp_other ((_ FloatingPoint 11 53)) (_ FloatingPoint 11 53))
(define-fun pow2fp ((x (_ FloatingPoint 11 53))) (_ FloatingPoint 11 53)
  (ite (and (fp.eq x (fp.roundToIntegral RTZ x)) (fp.geq x (fp #b0 #b00000000000 #x0000000000000)))
       (ite (fp.leq x (fp #b0 #b10000001000 #xff80000000000))
            (fp #b0 (bvadd ((_ fp.to_ubv 11) RTZ x) #b01111111111) #x0000000000000)
            (_ +oo 11 53))
       (pow2fp_other x)))
