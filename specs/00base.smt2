;; section base always
(declare-sort Str 0)
(declare-fun strlen (Str) Int)
(declare-const emptyStr Str)
(assert (forall ((s Str)) (! (and (>= (strlen s) 0) (<= (strlen s) 9223372036854775807)) :pattern ((strlen s)))))
(assert (forall ((s Str)) (! (=> (= (strlen s) 0) (= s emptyStr)) :pattern ((strlen s)))))
(assert (= (strlen emptyStr) 0))
(declare-datatypes ((BS 0)) (((mkBS (bs_c Str) (bs_nil Bool)))))
(declare-datatypes ((Iface 0)) (((mkI (i_typ Int) (i_val Int)))))
;; section hex
;; spec hex (Str) Str
;; spec unhex (Str) Str
(declare-fun hex (Str) Str)
(declare-fun unhex (Str) Str)
(assert (forall ((s Str)) (! (= (unhex (hex s)) s) :pattern ((hex s)))))
;; section ghosts always
; ghost cells (declared here so that contracts can name them)
;; ghost cancelled (Array Int Bool)
;; section context
; A-STD: context.WithCancel(parent) returns a fresh child of parent together with its cancel function
;; spec ctx_parent (Iface) Iface
;; spec cancel_of (Iface) Int
(declare-fun ctx_parent (Iface) Iface)
(declare-fun cancel_of (Iface) Int)
;; ghost ndelivered Int
;; ghost delivered (Array Int Iface)
; ghost state of one TermInCommittee (single-node send log and storage versions), indexed by view where applicable
;; ghost ppStored (Array Int Bool)
;; ghost ppHash (Array Int Str)
;; ghost sentPrepare (Array Int Bool)
;; ghost sentPrepareHash (Array Int Str)
;; ghost sentCommit (Array Int Bool)
;; ghost sentCommitHash (Array Int Str)
;; ghost proposed (Array Int Bool)
;; ghost lastVC Int
;; ghost ncommitted Int
;; ghost pver Int
;; ghost cver Int
;; ghost vcver Int
;; ghost lastCtxErrNil Bool
; C11: the received messages this node has counted (stored), by message object
;; ghost countedP (Array Int Bool)
;; ghost countedC (Array Int Bool)
;; ghost countedVC (Array Int Bool)
; channels and timers (A-CHAN / A-STD ghost state)
;; ghost closed (Array Int Bool)
;; ghost nsent Int
; the last value handed over on a channel of syncs (main loop -> worker), by channel
;; ghost lastSent_blockWithProof (Array Int Int)
;; ghost lastSent_ConsensusRawMessage (Array Int Int)
;; ghost timerDelay (Array Int Int)
;; ghost timerFn (Array Int Int)
;; ghost timerStopped (Array Int Bool)
;; ghost lastTimerStopResult Bool
; host callbacks (C13)
;; ghost lastRoundHeight Int
;; ghost lastCommitHeight Int
;; ghost recvd (Array Int Bool)
;; ghost alive (Array Int Bool)
;; ghost disposed (Array Int Bool)
;; ghost schedStopped Bool
