;; section quorum
;; needs-type []primitives.MemberWeight
;; needs-type []interfaces.CommitteeMember
;; needs-type []primitives.MemberId
;; provides nn SumA SumMA SWP InIds MemPred SameSeq Snoc
(define-fun nn ((x Int)) Int (ite (< x 0) 0 x))
(define-fun-rec SumA ((a (Array Int Int)) (n Int)) Int
  (ite (<= n 0) 0 (+ (SumA a (- n 1)) (nn (select a (- n 1))))))
;; spec SumW (Slice_Int Int) Int
(define-fun SumW ((s Slice_Int) (n Int)) Int (SumA (el_Slice_Int s) n))
(define-fun-rec SumMA ((a (Array Int S_interfaces_CommitteeMember)) (n Int)) Int
  (ite (<= n 0) 0 (+ (SumMA a (- n 1)) (nn (f_S_interfaces_CommitteeMember_Weight (select a (- n 1)))))))
;; spec SumMW (Slice_S_interfaces_CommitteeMember Int) Int
(define-fun SumMW ((s Slice_S_interfaces_CommitteeMember) (n Int)) Int (SumMA (el_Slice_S_interfaces_CommitteeMember s) n))
; f = floor((W-1)/3) with f(0) = 0 ; Q = W - f with Q(0) = 1
;; spec Fz (Int) Int
(define-fun Fz ((w Int)) Int (ite (<= w 0) 0 (div (- w 1) 3)))
;; spec Qz (Int) Int
(define-fun Qz ((w Int)) Int (ite (<= w 0) 1 (- w (Fz w))))
; weight of the members whose index satisfies predicate p
(define-fun-rec SWP ((p (Array Int Bool)) (a (Array Int S_interfaces_CommitteeMember)) (n Int)) Int
  (ite (<= n 0) 0 (+ (SWP p a (- n 1)) (ite (select p (- n 1)) (nn (f_S_interfaces_CommitteeMember_Weight (select a (- n 1)))) 0))))
; x is the content of one of the ids
;; spec InIds (Slice_BS Str) Bool
(define-fun InIds ((ids Slice_BS) (x Str)) Bool
  (exists ((j Int)) (and (<= 0 j) (< j (len_Slice_BS ids)) (= (bs_c (select (el_Slice_BS ids) j)) x))))
(declare-fun MemPred (Slice_BS (Array Int S_interfaces_CommitteeMember)) (Array Int Bool))
(assert (forall ((ids Slice_BS) (a (Array Int S_interfaces_CommitteeMember)) (i Int))
  (! (= (select (MemPred ids a) i) (InIds ids (bs_c (f_S_interfaces_CommitteeMember_Id (select a i))))) :pattern ((select (MemPred ids a) i)))))
; SW(ids, members, n): combined weight of the first n members whose id occurs in ids (duplicates and outsiders add nothing)
;; spec SW (Slice_BS Slice_S_interfaces_CommitteeMember Int) Int
(define-fun SW ((ids Slice_BS) (s Slice_S_interfaces_CommitteeMember) (n Int)) Int
  (SWP (MemPred ids (el_Slice_S_interfaces_CommitteeMember s)) (el_Slice_S_interfaces_CommitteeMember s) n))
; two id lists with the same length and, position by position, the same content
(define-fun SameSeq ((x Slice_BS) (y Slice_BS)) Bool (and (= (len_Slice_BS x) (len_Slice_BS y))
  (forall ((k Int)) (=> (and (<= 0 k) (< k (len_Slice_BS x))) (= (bs_c (select (el_Slice_BS x) k)) (bs_c (select (el_Slice_BS y) k)))))))
; the id list p followed by the id x
;; spec Snoc (Slice_BS BS) Slice_BS : []primitives.MemberId
(define-fun Snoc ((p Slice_BS) (x BS)) Slice_BS (mk_Slice_BS false (+ (len_Slice_BS p) 1) (store (el_Slice_BS p) (len_Slice_BS p) x)))
;; section quorum_axioms
;; provides SumA SumMA SWP
; lemma-axioms: each is proved by induction in specs/lemmas/quorum_sums.smt2 (re-checked on every C06 run)
(assert (forall ((a (Array Int Int)) (i Int) (n Int)) (! (=> (and (<= 0 i) (<= i n)) (<= (SumA a i) (SumA a n))) :pattern ((SumA a i) (SumA a n)))))
(assert (forall ((a (Array Int Int)) (i Int) (v Int) (n Int)) (! (=> (<= n i) (= (SumA (store a i v) n) (SumA a n))) :pattern ((SumA (store a i v) n)))))
(assert (forall ((a (Array Int S_interfaces_CommitteeMember)) (i Int) (n Int)) (! (=> (and (<= 0 i) (<= i n)) (<= (SumMA a i) (SumMA a n))) :pattern ((SumMA a i) (SumMA a n)))))
(assert (forall ((p (Array Int Bool)) (a (Array Int S_interfaces_CommitteeMember)) (n Int)) (! (and (<= 0 (SWP p a n)) (<= (SWP p a n) (SumMA a n))) :pattern ((SWP p a n)))))
;; section spi
; Uninterpreted predicates standing for the consumer's SPI (A-KM, A-SPI)
;; spec VerifiedMsg (Iface Int Str Str Str) Bool
(declare-fun VerifiedMsg (Iface Int Str Str Str) Bool)
;; spec VerifiedSeed (Iface Int Str Str Str) Bool
;; spec TermHeightOf (Int) Int
(declare-fun TermHeightOf (Int) Int)
;; spec SignsAs (Iface Str) Bool
(declare-fun SignsAs (Iface Str) Bool)
;; spec VCHeaderBytes (Int Int Int Int Int) Str
(declare-fun VCHeaderBytes (Int Int Int Int Int) Str)
; A-MB-RT: the bytes of a VIEW_CHANGE header encoded again, field by field, from a reader of it (what a NEW_VIEW carries)
;; spec ReencVC (Int) Str
(declare-fun ReencVC (Int) Str)
;; spec NVHeaderBytes (Int Int Int Int Slice_Int) Str
(declare-fun NVHeaderBytes (Int Int Int Int Slice_Int) Str)
(declare-fun VerifiedSeed (Iface Int Str Str Str) Bool)
; C11 hypotheses about the peer's environment: a context that is not cancelled while the message is handled, and the
; verdict of the consumer's proposal validation as a function of the proposal
;; spec StaysLive (Iface) Bool
(declare-fun StaysLive (Iface) Bool)
;; spec Validates (Iface Int Str Iface Str Iface) Bool
(declare-fun Validates (Iface Int Str Iface Str Iface) Bool)
;; spec Commits (Iface Int Iface Str) Bool
(declare-fun Commits (Iface Int Iface Str) Bool)
;; spec CommitteeOf (Iface Iface Int Int) Slice_S_interfaces_CommitteeMember : []interfaces.CommitteeMember
(declare-fun CommitteeOf (Iface Iface Int Int) Slice_S_interfaces_CommitteeMember)
; (C03 completeness hypothesis) the consumer's Membership answers the committee request for a block proof without error
;; spec CommitteeKnown (Iface Iface Int Int) Bool
(declare-fun CommitteeKnown (Iface Iface Int Int) Bool)
;; spec SeedOf (Str) Int
(declare-fun SeedOf (Str) Int)
;; spec SeedBytes (Int) Str
(declare-fun SeedBytes (Int) Str)
;; section storagelog
; A-STORE: the content of the consumer-supplied Storage as functions of (storage, version, key); versions are ghost
; counters bumped by the Store operations of the corresponding kind.
;; needs-type []*interfaces.CommitMessage
;; needs-type []*interfaces.PrepareMessage
;; needs-type []*interfaces.ViewChangeMessage
;; spec PIds (Iface Int Int Int Str) Slice_BS : []primitives.MemberId
(declare-fun PIds (Iface Int Int Int Str) Slice_BS)
;; spec PMsgs (Iface Int Int Int Str) Slice_Int : []*interfaces.PrepareMessage
(declare-fun PMsgs (Iface Int Int Int Str) Slice_Int)
;; spec CIds (Iface Int Int Int Str) Slice_BS : []primitives.MemberId
(declare-fun CIds (Iface Int Int Int Str) Slice_BS)
;; spec CMsgs (Iface Int Int Int Str) Slice_Int : []*interfaces.CommitMessage
(declare-fun CMsgs (Iface Int Int Int Str) Slice_Int)
;; spec PPAt (Iface Int Int) Int : *interfaces.PreprepareMessage
(declare-fun PPAt (Iface Int Int) Int)
;; spec PPSender (Iface Int Int) BS : primitives.MemberId
(declare-fun PPSender (Iface Int Int) BS)
;; spec VCMsgs (Iface Int Int Int) Slice_Int : []*interfaces.ViewChangeMessage
(declare-fun VCMsgs (Iface Int Int Int) Slice_Int)
;; section quorum_axioms2
;; provides SWP MemPred
; lemma-axiom (proved in specs/lemmas/quorum_sums.smt2): an empty id list selects no weight
(assert (forall ((ids Slice_BS) (a (Array Int S_interfaces_CommitteeMember)) (n Int))
  (! (=> (<= (len_Slice_BS ids) 0) (= (SWP (MemPred ids a) a n) 0)) :pattern ((SWP (MemPred ids a) a n)))))
; lemma-axiom (proved in specs/lemmas/quorum_sums.smt2, goals SWP.same-seq.*): the weight selected by an id list depends only
; on its sequence of ids
(assert (forall ((ids1 Slice_BS) (ids2 Slice_BS) (a (Array Int S_interfaces_CommitteeMember)) (n Int))
  (! (=> (SameSeq ids1 ids2) (= (SWP (MemPred ids1 a) a n) (SWP (MemPred ids2 a) a n))) :pattern ((SWP (MemPred ids1 a) a n) (SWP (MemPred ids2 a) a n)))))
;; section leaderfn
; the value a leader-computing function value returns for a view (function values are opaque references)
;; spec LeaderFn (Int Int) BS
(declare-fun LeaderFn (Int Int) BS)
;; section wire
; A-MB-RT: the union wrapper of a consensus message: which arm the bytes carry and the bytes of that arm
;; spec WireTag (Str) Int
(declare-fun WireTag (Str) Int)
;; spec WirePayload (Str) Str
(declare-fun WirePayload (Str) Str)
; A-MB-RT: canonical membuffers encoding of a BlockRef as a function of its five fields
;; spec BlockRefBytes (Int Int Int Int Str) Str
(declare-fun BlockRefBytes (Int Int Int Int Str) Str)
;; section spi_axioms
;; provides Commits
; A-SPI: no block satisfies the empty hash (ValidateBlockCommitment / ValidateBlockProposal reject it)
(assert (forall ((bu Iface) (h Int) (b Iface) (x Str)) (! (=> (Commits bu h b x) (> (strlen x) 0)) :pattern ((Commits bu h b x)))))
