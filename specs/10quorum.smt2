;; section quorum
;; needs-type []primitives.MemberWeight
;; needs-type []interfaces.CommitteeMember
;; needs-type []primitives.MemberId
;; provides nn SumA SumMA
(define-fun nn ((x Int)) Int (ite (< x 0) 0 x))
(define-fun-rec SumA ((a (Array Int Int)) (n Int)) Int
  (ite (<= n 0) 0 (+ (SumA a (- n 1)) (nn (select a (- n 1))))))
;; spec SumW (Slice_Int Int) Int
(define-fun SumW ((s Slice_Int) (n Int)) Int (SumA (el_Slice_Int s) n))
(define-fun-rec SumMA ((a (Array Int S_interfaces_CommitteeMember)) (n Int)) Int
  (ite (<= n 0) 0 (+ (SumMA a (- n 1)) (nn (f_S_interfaces_CommitteeMember_Weight (select a (- n 1)))))))
;; spec SumMW (Slice_S_interfaces_CommitteeMember Int) Int
(define-fun SumMW ((s Slice_S_interfaces_CommitteeMember) (n Int)) Int (SumMA (el_Slice_S_interfaces_CommitteeMember s) n))
;; spec Fz (Int) Int
(define-fun Fz ((w Int)) Int (ite (<= w 0) 0 (div (- w 1) 3)))
;; spec Qz (Int) Int
(define-fun Qz ((w Int)) Int (ite (<= w 0) 1 (- w (Fz w))))
; lemma-axioms (each proved by induction in specs/lemmas/quorum_*.smt2, re-checked on every run)
(assert (forall ((a (Array Int Int)) (i Int) (n Int)) (! (=> (and (<= 0 i) (<= i n)) (<= (SumA a i) (SumA a n))) :pattern ((SumA a i) (SumA a n)))))
(assert (forall ((a (Array Int Int)) (i Int) (v Int) (n Int)) (! (=> (<= n i) (= (SumA (store a i v) n) (SumA a n))) :pattern ((SumA (store a i v) n)))))
(assert (forall ((a (Array Int S_interfaces_CommitteeMember)) (i Int) (n Int)) (! (=> (and (<= 0 i) (<= i n)) (<= (SumMA a i) (SumMA a n))) :pattern ((SumMA a i) (SumMA a n)))))
