; props: C18
; lemma: in any run of n consecutive views v .. v+n-1 (not wrapping 2^64) the n offsets map injectively into the n positions 0..n-1 (hence, by counting, each position leads exactly once)
(declare-const v Int)
(declare-const n Int)
(declare-const i Int)
(declare-const j Int)
(assert (and (>= n 1) (<= 0 v) (< (+ v n (- 1)) 18446744073709551616)))
;; goal L18.injective
(assert (and (<= 0 i) (< i j) (< j n)))
(assert (not (distinct (mod (+ v i) n) (mod (+ v j) n))))
;; goal L18.in-range
(assert (and (<= 0 i) (< i n)))
(assert (not (and (<= 0 (mod (+ v i) n)) (< (mod (+ v i) n) n))))
;; goal CANARY.rotation-not-constant
(assert (> n 1))
(assert (not (= (mod v n) (mod (+ v 1) n))))
