; props: C06
; lemma: the set laws of C06 over the spec functions the code is proved against (P, R: member subsets as index predicates; W = SumMA m n)
(declare-const m (Array Int S_interfaces_CommitteeMember))
(declare-const P (Array Int Bool))
(declare-const R (Array Int Bool))
(declare-const U (Array Int Bool))
(declare-const I (Array Int Bool))
(declare-const C (Array Int Bool))
(declare-const n Int)
(assert (forall ((k Int)) (! (= (select U k) (or (select P k) (select R k))) :pattern ((select U k)))))
(assert (forall ((k Int)) (! (= (select I k) (and (select P k) (select R k))) :pattern ((select I k)))))
(assert (forall ((k Int)) (! (= (select C k) (not (select P k))) :pattern ((select C k)))))
(define-fun W () Int (SumMA m n))
;; goal L6.a.inclusion-exclusion.base
(assert (<= n 0))
(assert (not (= (+ (SWP P m n) (SWP R m n)) (+ (SWP U m n) (SWP I m n)))))
;; goal L6.a.inclusion-exclusion.step
(assert (<= 0 n))
(assert (= (+ (SWP P m n) (SWP R m n)) (+ (SWP U m n) (SWP I m n))))
(assert (not (= (+ (SWP P m (+ n 1)) (SWP R m (+ n 1))) (+ (SWP U m (+ n 1)) (SWP I m (+ n 1))))))
;; goal L6.partition.step
; P and its complement partition the total weight
(assert (<= 0 n))
(assert (= (+ (SWP P m n) (SWP C m n)) (SumMA m n)))
(assert (not (= (+ (SWP P m (+ n 1)) (SWP C m (+ n 1))) (SumMA m (+ n 1)))))
;; goal L6.partition.base
(assert (<= n 0))
(assert (not (= (+ (SWP P m n) (SWP C m n)) (SumMA m n))))
;; goal L6.e.monotone.step
(assert (forall ((k Int)) (=> (select P k) (select R k))))
(assert (<= 0 n))
(assert (<= (SWP P m n) (SWP R m n)))
(assert (not (<= (SWP P m (+ n 1)) (SWP R m (+ n 1)))))
;; goal L6.f.extensional.step
; the weight depends only on which members are selected: equal predicates on 0..n give equal weight
(assert (forall ((k Int)) (=> (and (<= 0 k) (<= k n)) (= (select P k) (select R k)))))
(assert (<= 0 n))
(assert (= (SWP P m n) (SWP R m n)))
(assert (not (= (SWP P m (+ n 1)) (SWP R m (+ n 1)))))
;; goal L6.b.two-quorums-share-more-than-f
; uses L6.a (inclusion-exclusion) and SWP <= W (section quorum_axioms), both proved above / in quorum_sums.smt2
(assert (= (+ (SWP P m n) (SWP R m n)) (+ (SWP U m n) (SWP I m n))))
(assert (>= (SWP P m n) (Qz W)))
(assert (>= (SWP R m n) (Qz W)))
(assert (not (> (SWP I m n) (Fz W))))
;; goal L6.c.quorum-implies-has-honest
(assert (>= (SWP P m n) (Qz W)))
(assert (not (> (SWP P m n) (Fz W))))
;; goal L6.d.complement-of-f-subset-is-quorum
(assert (= (+ (SWP P m n) (SWP C m n)) (SumMA m n)))
(assert (<= (SWP P m n) (Fz W)))
(assert (>= W 1))
(assert (not (>= (SWP C m n) (Qz W))))
;; goal L6.q-attainable
; the whole committee passes the quorum test, and a quorum never needs more than the total
(assert (>= W 1))
(assert (not (and (<= (Qz W) W) (>= (Qz W) 1) (> (Qz W) (Fz W)))))
;; goal CANARY.quorums-may-be-disjoint-below-threshold
(assert (>= (SWP P m n) (Fz W)))
(assert (>= (SWP R m n) (Fz W)))
(assert (> n 3))
(assert (not (> (SWP I m n) 0)))
