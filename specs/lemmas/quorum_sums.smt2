; props: C06
; lemma: inductive facts about the spec sums (these are the lemma-axioms of section quorum_axioms)
; exclude-sections: quorum_axioms quorum_axioms2
(declare-const a (Array Int Int))
(declare-const m (Array Int S_interfaces_CommitteeMember))
(declare-const p (Array Int Bool))
(declare-const i Int)
(declare-const n Int)
(declare-const v Int)
;; goal SumA.monotone.base
(assert (<= 0 i))
(assert (not (<= (SumA a i) (SumA a i))))
;; goal SumA.monotone.step
(assert (and (<= 0 i) (<= i n)))
(assert (<= (SumA a i) (SumA a n)))
(assert (not (<= (SumA a i) (SumA a (+ n 1)))))
;; goal SumA.frame.base
(assert (<= n 0))
(assert (not (= (SumA (store a i v) n) (SumA a n))))
;; goal SumA.frame.step
(assert (and (<= 0 n) (<= (+ n 1) i)))
(assert (= (SumA (store a i v) n) (SumA a n)))
(assert (not (= (SumA (store a i v) (+ n 1)) (SumA a (+ n 1)))))
;; goal SumMA.monotone.step
(assert (and (<= 0 i) (<= i n)))
(assert (<= (SumMA m i) (SumMA m n)))
(assert (not (<= (SumMA m i) (SumMA m (+ n 1)))))
;; goal SWP.bounds.base
(assert (<= n 0))
(assert (not (and (<= 0 (SWP p m n)) (<= (SWP p m n) (SumMA m n)))))
;; goal SWP.bounds.step
(assert (<= 0 n))
(assert (and (<= 0 (SWP p m n)) (<= (SWP p m n) (SumMA m n))))
(assert (not (and (<= 0 (SWP p m (+ n 1))) (<= (SWP p m (+ n 1)) (SumMA m (+ n 1))))))
;; goal SWP.empty-ids.base
(declare-const ids Slice_BS)
(assert (<= (len_Slice_BS ids) 0))
(assert (<= n 0))
(assert (not (= (SWP (MemPred ids m) m n) 0)))
;; goal SWP.empty-ids.step
(declare-const ids Slice_BS)
(assert (<= (len_Slice_BS ids) 0))
(assert (<= 0 n))
(assert (= (SWP (MemPred ids m) m n) 0))
(assert (not (= (SWP (MemPred ids m) m (+ n 1)) 0)))
;; goal SWP.same-seq.membership
(declare-const ids1 Slice_BS)
(declare-const ids2 Slice_BS)
(declare-const x Str)
(assert (SameSeq ids1 ids2))
(assert (not (= (InIds ids1 x) (InIds ids2 x))))
;; goal SWP.same-seq.base
(declare-const ids1 Slice_BS)
(declare-const ids2 Slice_BS)
(assert (SameSeq ids1 ids2))
(assert (<= n 0))
(assert (not (= (SWP (MemPred ids1 m) m n) (SWP (MemPred ids2 m) m n))))
;; goal SWP.same-seq.step
(declare-const ids1 Slice_BS)
(declare-const ids2 Slice_BS)
(assert (SameSeq ids1 ids2))
(assert (forall ((x Str)) (= (InIds ids1 x) (InIds ids2 x))))
(assert (<= 0 n))
(assert (= (SWP (MemPred ids1 m) m n) (SWP (MemPred ids2 m) m n)))
(assert (not (= (SWP (MemPred ids1 m) m (+ n 1)) (SWP (MemPred ids2 m) m (+ n 1)))))
;; goal CANARY.sums-not-trivial
(assert (< 0 n))
(assert (not (= (SumA a n) 0)))
