; props: C19
; lemma: Tspec (the value CalcTimeout is proved to return) is positive, monotone in the view, exact while m*2^v fits, saturating otherwise
(declare-const m (_ BitVec 64))
(declare-const v1 (_ BitVec 64))
(declare-const v2 (_ BitVec 64))
(assert (bvsgt m #x0000000000000000))
;; goal L19.positive
(assert (not (bvsgt (Tspec m v1) #x0000000000000000)))
;; goal L19.monotone
(assert (bvule v1 v2))
(assert (not (bvsle (Tspec m v1) (Tspec m v2))))
;; goal L19.at-least-base
(assert (not (bvsge (Tspec m v1) m)))
;; goal L19.exact-no-bits-lost
; when it does not saturate, shifting back recovers m and the low v bits are zero: the value is m * 2^v
(assert (bvult v1 (_ bv63 64)))
(assert (bvsle m (bvlshr #x7fffffffffffffff v1)))
(assert (not (and (= (bvlshr (Tspec m v1) v1) m) (= (bvshl (bvlshr (Tspec m v1) v1) v1) (Tspec m v1)))))
;; goal L19.saturates-iff-overflow
; saturation happens exactly when m * 2^v1 (as a 128-bit product) exceeds MaxInt64
(define-fun wide ((x (_ BitVec 64))) (_ BitVec 128) ((_ zero_extend 64) x))
(assert (bvult v1 (_ bv63 64)))
(assert (not (ite (bvugt (bvshl (wide m) (wide v1)) (wide #x7fffffffffffffff))
                  (= (Tspec m v1) #x7fffffffffffffff)
                  (= (wide (Tspec m v1)) (bvshl (wide m) (wide v1))))))
;; goal CANARY.timeout-not-constant
(assert (not (= (Tspec m v1) m)))
