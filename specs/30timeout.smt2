;; section timeout
; Saturating election timeout: base * 2^view, capped at MaxInt64 (time.Duration is int64 nanoseconds).
;; spec Tspec ((_ BitVec 64) (_ BitVec 64)) (_ BitVec 64)
(define-fun Tspec ((m (_ BitVec 64)) (v (_ BitVec 64))) (_ BitVec 64)
  (ite (or (bvuge v (_ bv63 64)) (bvsgt m (bvlshr #x7fffffffffffffff v)))
       #x7fffffffffffffff
       (bvshl m v)))
