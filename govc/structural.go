package main

// Structural obligations decided on the SSA without a solver (DESIGN §2.9).

type StructObl struct {
	Label  string
	What   string
	OK     bool
	Detail string
}

func (P *Program) structuralObligations(prop string, meta PropMeta) []StructObl {
	var out []StructObl
	for _, s := range meta.Structural {
		out = append(out, P.runStructural(s)...)
	}
	return out
}

func (P *Program) runStructural(spec string) []StructObl {
	return nil
}
