package main

// Structural obligations decided on the SSA without a solver (DESIGN §2.9). Each is configured by a line in
// /verif/props/<id>.json "structural": ["<kind> <args...>", ...] and is an obligation like any other.

import (
	"fmt"
	"go/token"
	"go/types"
	"sort"
	"strings"

	"golang.org/x/tools/go/ssa"
)

type StructObl struct {
	Label  string
	What   string
	OK     bool
	Detail string
}

func (P *Program) structuralObligations(prop string, meta PropMeta) []StructObl {
	var out []StructObl
	for _, s := range meta.Structural {
		out = append(out, P.runStructural(s)...)
	}
	return out
}

func (P *Program) allRepoFuncs() []*ssa.Function {
	var fs []*ssa.Function
	seen := map[*ssa.Function]bool{}
	var add func(fn *ssa.Function)
	add = func(fn *ssa.Function) {
		if fn == nil || seen[fn] || fn.Blocks == nil {
			return
		}
		seen[fn] = true
		fs = append(fs, fn)
		for _, a := range fn.AnonFuncs {
			add(a)
		}
	}
	for _, fn := range P.fnByKey {
		add(fn)
	}
	sort.Slice(fs, func(i, j int) bool { return P.fnKey(fs[i]) < P.fnKey(fs[j]) })
	return fs
}

// isLibrary: non-test, non-mock code of the repository (the code the properties are about).
func (P *Program) isLibrary(fn *ssa.Function) bool {
	if fn.Pkg == nil {
		return false
	}
	p := fn.Pkg.Pkg.Path()
	if !P.repoPkgs[p] {
		return false
	}
	for _, bad := range []string{"/test", "/testhelpers", "/test_poc", "/mocks", "/builders", "/spec/"} {
		if strings.Contains(p+"/", bad+"/") || strings.HasSuffix(p, bad) {
			return false
		}
	}
	pos := P.fset.Position(fn.Pos())
	return !strings.HasSuffix(pos.Filename, "_test.go")
}

func (P *Program) runStructural(spec string) []StructObl {
	fs := strings.Fields(spec)
	if len(fs) == 0 {
		return nil
	}
	label := strings.Join(fs, " ")
	fail := func(format string, a ...interface{}) []StructObl {
		return []StructObl{{Label: label, What: spec, OK: false, Detail: fmt.Sprintf(format, a...)}}
	}
	ok := func(detail string) []StructObl {
		return []StructObl{{Label: label, What: spec, OK: true, Detail: detail}}
	}
	switch fs[0] {
	case "nonblocking-send":
		// nonblocking-send <funcKey> <chanField>: every select in the function that sends on a channel read from the
		// named field has a default arm (it can never block the loop)
		fn := P.fnByKey[fs[1]]
		if fn == nil {
			return fail("function %s not found", fs[1])
		}
		found := 0
		for _, b := range fn.Blocks {
			for _, ins := range b.Instrs {
				if sel, isSel := ins.(*ssa.Select); isSel {
					for _, st := range sel.States {
						if st.Dir == types.SendOnly && strings.Contains(P.describeValue(st.Chan), fs[2]) {
							found++
							if sel.Blocking {
								return fail("select at %s sends on %s without a default arm", P.fset.Position(sel.Pos()), fs[2])
							}
						}
					}
				}
				if snd, isSend := ins.(*ssa.Send); isSend && strings.Contains(P.describeValue(snd.Chan), fs[2]) {
					return fail("blocking send on %s at %s", fs[2], P.fset.Position(snd.Pos()))
				}
			}
		}
		if found == 0 {
			return fail("no select sending on %s found in %s (the forwarding site disappeared)", fs[2], fs[1])
		}
		return ok(fmt.Sprintf("%d non-blocking send site(s)", found))
	case "cancellable":
		// cancellable <funcKey>: every blocking channel operation of the function sits in a select that also receives
		// from a Done() channel or from a channel parameter/variable whose name contains "ancel"
		fn := P.fnByKey[fs[1]]
		if fn == nil {
			return fail("function %s not found", fs[1])
		}
		n := 0
		for _, b := range fn.Blocks {
			for _, ins := range b.Instrs {
				switch x := ins.(type) {
				case *ssa.Select:
					if !x.Blocking {
						continue
					}
					n++
					has := false
					for _, st := range x.States {
						d := P.describeValue(st.Chan)
						if st.Dir == types.RecvOnly && (strings.Contains(d, "Done()") || strings.Contains(strings.ToLower(d), "cancel")) {
							has = true
						}
					}
					if !has {
						return fail("blocking select at %s has no cancellation arm", P.fset.Position(x.Pos()))
					}
				case *ssa.Send:
					return fail("bare channel send at %s", P.fset.Position(x.Pos()))
				case *ssa.UnOp:
					if x.Op == token.ARROW {
						d := P.describeValue(x.X)
						if !strings.Contains(d, "Done()") {
							return fail("bare channel receive from %s at %s", d, P.fset.Position(x.Pos()))
						}
					}
				}
			}
		}
		return ok(fmt.Sprintf("%d blocking select(s), all cancellable", n))
	case "no-writer":
		// no-writer <pkgname.Var>: the package variable is never assigned by library code outside its initialiser
		for _, fn := range P.allRepoFuncs() {
			if !P.isLibrary(fn) || fn.Name() == "init" {
				continue
			}
			for _, b := range fn.Blocks {
				for _, ins := range b.Instrs {
					if st, isStore := ins.(*ssa.Store); isStore {
						if g, isG := st.Addr.(*ssa.Global); isG && g.Pkg.Pkg.Name()+"."+g.Name() == fs[1] {
							return fail("%s is assigned in %s", fs[1], P.fnKey(fn))
						}
					}
				}
			}
		}
		return ok("no assignment found")
	case "no-package-state":
		// no-package-state <pkgname>: no library function of the package touches a package-level variable (its own or any
		// other package's): its results are functions of its arguments alone, the same at every node and at every call
		n := 0
		for _, fn := range P.allRepoFuncs() {
			if !P.isLibrary(fn) || fn.Pkg == nil || fn.Pkg.Pkg.Name() != fs[1] || fn.Name() == "init" {
				continue
			}
			n++
			for _, b := range fn.Blocks {
				for _, ins := range b.Instrs {
					for _, op := range ins.Operands(nil) {
						if op == nil || *op == nil {
							continue
						}
						if g, isG := (*op).(*ssa.Global); isG {
							return fail("%s uses the package-level variable %s.%s at %s: its result is no longer a function of its arguments", P.fnKey(fn), g.Pkg.Pkg.Name(), g.Name(), P.fset.Position(ins.Pos()))
						}
					}
				}
			}
		}
		if n == 0 {
			return fail("package %s has no library function (renamed?)", fs[1])
		}
		return ok(fmt.Sprintf("%d function(s), none touches a package-level variable", n))
	case "field-writers":
		// field-writers <pkg.Type> <field,field,...> <allowed fn key substrings, comma separated>: the listed fields are
		// stored to only inside the allowed (constructor) functions - so a fact the constructor establishes about them is an
		// invariant of every object of the type (the object-invariant argument behind TicOK and the term filter's handler)
		fields := map[string]bool{}
		for _, f := range strings.Split(fs[2], ",") {
			fields[f] = true
		}
		allowed := strings.Split(fs[3], ",")
		seenField := map[string]bool{}
		nw := 0
		for _, fn := range P.allRepoFuncs() {
			if !P.isLibrary(fn) {
				continue
			}
			key := P.fnKey(fn)
			isAllowed := false
			for _, a := range allowed {
				if a != "" && strings.Contains(key, a) {
					isAllowed = true
				}
			}
			for _, b := range fn.Blocks {
				for _, ins := range b.Instrs {
					st, isStore := ins.(*ssa.Store)
					if !isStore {
						continue
					}
					fa, isFA := st.Addr.(*ssa.FieldAddr)
					if !isFA {
						continue
					}
					stt, named := structOfPtrType(fa.X.Type())
					if stt == nil || P.sorts.typeName(named) != fs[1] || !fields[stt.Field(fa.Field).Name()] {
						continue
					}
					seenField[stt.Field(fa.Field).Name()] = true
					nw++
					if !isAllowed {
						return fail("%s.%s is written in %s at %s (only %s may write it)", fs[1], stt.Field(fa.Field).Name(), key, P.fset.Position(st.Pos()), fs[3])
					}
				}
			}
		}
		for f := range fields {
			if !seenField[f] {
				return fail("no store to %s.%s found at all (renamed field or constructor?)", fs[1], f)
			}
		}
		return ok(fmt.Sprintf("%d store(s), all inside %s", nw, fs[3]))
	case "no-caller":
		// no-caller <funcKey>: no library code calls the function
		target := P.fnByKey[fs[1]]
		if target == nil {
			return fail("function %s not found", fs[1])
		}
		for _, fn := range P.allRepoFuncs() {
			if !P.isLibrary(fn) {
				continue
			}
			for _, b := range fn.Blocks {
				for _, ins := range b.Instrs {
					if c, isCall := ins.(ssa.CallInstruction); isCall {
						if c.Common().StaticCallee() == target {
							return fail("%s is called by %s", fs[1], P.fnKey(fn))
						}
					}
					for _, op := range ins.Operands(nil) {
						if *op == ssa.Value(target) {
							if _, isCall := ins.(ssa.CallInstruction); !isCall {
								return fail("%s is used as a value in %s", fs[1], P.fnKey(fn))
							}
						}
					}
				}
			}
		}
		return ok("no library caller")
	case "guarded-by":
		// guarded-by <pkg.Type> <field,field> <lockexpr>: every library function that touches one of the fields of an
		// object it did not allocate itself takes the lock (Lock/RLock on a value whose description contains
		// <lockexpr>) in its entry block before the first access and defers the matching unlock
		fields := map[string]bool{}
		for _, f := range strings.Split(fs[2], ",") {
			fields[f] = true
		}
		checked := 0
		for _, fn := range P.allRepoFuncs() {
			if !P.isLibrary(fn) {
				continue
			}
			var firstAccess token.Pos
			locked, deferred := false, false
			wlocked, writes := false, ""
			violation := ""
			for _, b := range fn.Blocks {
				for _, ins := range b.Instrs {
					switch x := ins.(type) {
					case *ssa.Call:
						if callee := x.Call.StaticCallee(); callee != nil && (callee.Name() == "Lock" || callee.Name() == "RLock") && len(x.Call.Args) > 0 && strings.Contains(P.describeValue(x.Call.Args[0]), fs[3]) {
							if b.Index == 0 {
								locked = true
								if callee.Name() == "Lock" {
									wlocked = true
								}
							}
						}
					case *ssa.Defer:
						if callee := x.Call.StaticCallee(); callee != nil && (callee.Name() == "Unlock" || callee.Name() == "RUnlock") {
							deferred = true
						}
					case *ssa.FieldAddr:
						st, named := structOfPtrType(x.X.Type())
						if st == nil || P.sorts.typeName(named) != fs[1] || !fields[st.Field(x.Field).Name()] {
							continue
						}
						if _, fresh := x.X.(*ssa.Alloc); fresh {
							continue // constructor initialising its own object
						}
						if !locked && violation == "" {
							violation = fmt.Sprintf("%s accesses %s.%s at %s without holding %s", P.fnKey(fn), fs[1], st.Field(x.Field).Name(), P.fset.Position(x.Pos()), fs[3])
						}
						if !firstAccess.IsValid() {
							firstAccess = x.Pos()
						}
						// a write needs the exclusive lock: a read lock admits concurrent readers in the middle of the update
						for _, ref := range *x.Referrers() {
							if st2, isStore := ref.(*ssa.Store); isStore && st2.Addr == x && writes == "" {
								writes = fmt.Sprintf("%s.%s at %s", fs[1], st.Field(x.Field).Name(), P.fset.Position(st2.Pos()))
							}
						}
					}
				}
			}
			if firstAccess.IsValid() {
				checked++
				if violation != "" {
					return fail("%s", violation)
				}
				if !deferred {
					return fail("%s takes %s but does not defer the unlock", P.fnKey(fn), fs[3])
				}
				if writes != "" && !wlocked {
					return fail("%s writes %s holding only the read lock of %s", P.fnKey(fn), writes, fs[3])
				}
			}
		}
		if checked == 0 {
			return fail("no access to %s.%s found (renamed?)", fs[1], fs[2])
		}
		return ok(fmt.Sprintf("%d accessor function(s), all hold the lock", checked))
	case "channel-readers":
		// channel-readers <chanField> <fn,fn,...>: only the listed functions (and closures inside them) take values out of
		// the channel kept in the named struct field.  A hand-off channel is a one-place mailbox between two goroutines; a
		// receive anywhere else (a "drain before send" on the producer side, say) silently discards what was handed over.
		allowed := map[string]bool{}
		for _, f := range strings.Split(fs[2], ",") {
			allowed[f] = true
		}
		suffix := "." + fs[1]
		isField := func(fn *ssa.Function, ch ssa.Value) bool {
			seen := map[ssa.Value]bool{}
			var rec func(v ssa.Value, depth int) bool
			rec = func(v ssa.Value, depth int) bool {
				if v == nil || seen[v] || depth > 4 {
					return false
				}
				seen[v] = true
				if strings.HasSuffix(P.describeValue(v), suffix) {
					return true
				}
				// through a local variable: every value stored into it
				if u, ok := v.(*ssa.UnOp); ok && u.Op == token.MUL {
					if a, ok := u.X.(*ssa.Alloc); ok {
						for _, ref := range *a.Referrers() {
							if st, ok := ref.(*ssa.Store); ok && st.Addr == a && rec(st.Val, depth+1) {
								return true
							}
						}
					}
				}
				if ct, ok := v.(*ssa.ChangeType); ok {
					return rec(ct.X, depth+1)
				}
				if ph, ok := v.(*ssa.Phi); ok {
					for _, e := range ph.Edges {
						if rec(e, depth+1) {
							return true
						}
					}
				}
				return false
			}
			return rec(ch, 0)
		}
		found := 0
		for _, fn := range P.allRepoFuncs() {
			if !P.isLibrary(fn) {
				continue
			}
			inAllowed := false
			for g := fn; g != nil; g = g.Parent() {
				if allowed[P.fnKey(g)] {
					inAllowed = true
				}
			}
			for _, b := range fn.Blocks {
				for _, ins := range b.Instrs {
					var ch ssa.Value
					var pos token.Pos
					switch x := ins.(type) {
					case *ssa.UnOp:
						if x.Op == token.ARROW {
							ch, pos = x.X, x.Pos()
						}
					case *ssa.Select:
						for _, st := range x.States {
							if st.Dir == types.RecvOnly && isField(fn, st.Chan) {
								ch, pos = st.Chan, st.Pos
								if !pos.IsValid() {
									pos = x.Pos()
								}
							}
						}
					}
					if ch == nil || !isField(fn, ch) {
						continue
					}
					found++
					if !inAllowed {
						return fail("%s receives from %s at %s; only %s may take values out of that channel", P.fnKey(fn), fs[1], P.fset.Position(pos), fs[2])
					}
				}
			}
		}
		if found == 0 {
			return fail("no receive from %s found (renamed?)", fs[1])
		}
		return ok(fmt.Sprintf("%d receive site(s), all in %s", found, fs[2]))
	case "supervised-handles":
		// supervised-handles: every *govnr.ForeverHandle obtained in library code (from govnr.Forever or from a library
		// function returning one) is handed to Supervise or returned to the caller (whose use is checked the same way).
		// WaitUntilShutdown waits for exactly the supervised handles: a loop whose handle is dropped, or only marked, is a
		// loop that shutdown does not wait for.
		isHandle := func(t types.Type) bool {
			return strings.HasSuffix(t.String(), "govnr.ForeverHandle")
		}
		found := 0
		for _, fn := range P.allRepoFuncs() {
			if !P.isLibrary(fn) {
				continue
			}
			for _, b := range fn.Blocks {
				for _, ins := range b.Instrs {
					call, isCall := ins.(*ssa.Call)
					if !isCall || !isHandle(call.Type()) {
						continue
					}
					found++
					seen := map[ssa.Value]bool{}
					var reaches func(v ssa.Value, depth int) bool
					reaches = func(v ssa.Value, depth int) bool {
						if seen[v] || depth > 6 || v.Referrers() == nil {
							return false
						}
						seen[v] = true
						for _, ref := range *v.Referrers() {
							switch r := ref.(type) {
							case *ssa.Return:
								return true
							case ssa.CallInstruction:
								c := r.Common()
								name := ""
								if c.IsInvoke() {
									name = c.Method.Name()
								} else if cal := c.StaticCallee(); cal != nil {
									name = cal.Name()
								}
								isArg := false
								for _, a := range c.Args {
									if a == v {
										isArg = true
									}
								}
								if name == "Supervise" && isArg {
									return true
								}
							case *ssa.Store:
								if a, ok := r.Addr.(*ssa.Alloc); ok && r.Val == v {
									for _, ar := range *a.Referrers() {
										if ld, ok := ar.(*ssa.UnOp); ok && ld.Op == token.MUL && reaches(ld, depth+1) {
											return true
										}
									}
								}
							case *ssa.Phi:
								if reaches(r, depth+1) {
									return true
								}
							case *ssa.MakeInterface:
								if reaches(r, depth+1) {
									return true
								}
							case *ssa.ChangeType:
								if reaches(r, depth+1) {
									return true
								}
							}
						}
						return false
					}
					if !reaches(call, 0) {
						return fail("the loop handle obtained in %s at %s is neither handed to Supervise nor returned: shutdown does not wait for that loop", P.fnKey(fn), P.fset.Position(call.Pos()))
					}
				}
			}
		}
		if found == 0 {
			return fail("no supervised loop handle found (renamed?)")
		}
		return ok(fmt.Sprintf("%d loop handle(s), all supervised or returned", found))
	case "frees-slot-before-send":
		// frees-slot-before-send <funcKey>: the hand-off function tests "the buffer is full" as len(ch) == cap(ch) (or >=)
		// and, when it is, takes one value out with a non-blocking receive before it sends - so the send that follows
		// cannot block behind a worker that is busy.  With any weaker test a pending value is never discarded and the main
		// loop hangs in the send while the worker sits in a long SPI call.
		fn := P.fnByKey[fs[1]]
		if fn == nil {
			return fail("function %s not found", fs[1])
		}
		originIsBuiltin := func(v ssa.Value, name string) bool {
			seen := map[ssa.Value]bool{}
			var rec func(v ssa.Value, d int) bool
			rec = func(v ssa.Value, d int) bool {
				if v == nil || seen[v] || d > 4 {
					return false
				}
				seen[v] = true
				if c, ok := v.(*ssa.Call); ok {
					if b, ok := c.Call.Value.(*ssa.Builtin); ok && b.Name() == name {
						return true
					}
				}
				if u, ok := v.(*ssa.UnOp); ok && u.Op == token.MUL {
					if a, ok := u.X.(*ssa.Alloc); ok {
						for _, ref := range *a.Referrers() {
							if st, ok := ref.(*ssa.Store); ok && st.Addr == a && rec(st.Val, d+1) {
								return true
							}
						}
					}
				}
				return false
			}
			return rec(v, 0)
		}
		for _, b := range fn.Blocks {
			for _, ins := range b.Instrs {
				bin, ok := ins.(*ssa.BinOp)
				if !ok {
					continue
				}
				full := false
				switch bin.Op {
				case token.EQL, token.GEQ:
					full = originIsBuiltin(bin.X, "len") && originIsBuiltin(bin.Y, "cap")
				case token.LEQ:
					full = originIsBuiltin(bin.X, "cap") && originIsBuiltin(bin.Y, "len")
				}
				if full && bin.Op == token.EQL {
					full = true
				}
				if !full {
					continue
				}
				// the branch taken when the test holds must contain a non-blocking select with a receive arm
				for _, ref := range *bin.Referrers() {
					iff, ok := ref.(*ssa.If)
					if !ok {
						continue
					}
					then := iff.Block().Succs[0]
					for _, ti := range then.Instrs {
						if sel, ok := ti.(*ssa.Select); ok && !sel.Blocking {
							for _, st := range sel.States {
								if st.Dir == types.RecvOnly {
									return ok2struct(label, spec, "full-buffer test and non-blocking drain found")
								}
							}
						}
					}
				}
			}
		}
		return fail("%s has no `len(ch) == cap(ch)` test followed by a non-blocking receive: a full buffer is not freed before the send", fs[1])
	case "callers-of":
		// callers-of <callee=fn,fn;callee=fn,...>: the named functions are called only from the listed library functions
		// (closures inside them included).  Used for the constructors of membuffers readers over bytes that came from
		// outside: they belong in the recover-guarded parse functions, where every field is read once (F13).
		allowedBy := map[string]map[string]bool{}
		for _, part := range strings.Split(fs[1], ";") {
			kv := strings.SplitN(part, "=", 2)
			if len(kv) != 2 {
				return fail("bad argument %q", part)
			}
			allowedBy[kv[0]] = map[string]bool{}
			for _, f := range strings.Split(kv[1], ",") {
				allowedBy[kv[0]][f] = true
			}
		}
		found := 0
		for _, fn := range P.allRepoFuncs() {
			if !P.isLibrary(fn) {
				continue
			}
			for _, b := range fn.Blocks {
				for _, ins := range b.Instrs {
					c, isCall := ins.(ssa.CallInstruction)
					if !isCall {
						continue
					}
					callee := c.Common().StaticCallee()
					if callee == nil || callee.Pkg == nil {
						continue
					}
					name := callee.Pkg.Pkg.Name() + "." + callee.Name()
					al, watched := allowedBy[name]
					if !watched {
						continue
					}
					if fn.Pkg != nil && fn.Pkg.Pkg == callee.Pkg.Pkg {
						continue // the callee's own (generated) package
					}
					found++
					ok2 := false
					for g := fn; g != nil; g = g.Parent() {
						if al[P.fnKey(g)] {
							ok2 = true
						}
					}
					if !ok2 {
						return fail("%s calls %s at %s; only %s may", P.fnKey(fn), name, P.fset.Position(ins.Pos()), fs[1])
					}
				}
			}
		}
		if found == 0 {
			return fail("none of the watched calls was found (renamed?)")
		}
		return ok(fmt.Sprintf("%d call site(s), all where listed", found))
	case "goroutines-only-via":
		// goroutines-only-via <callee=fn,fn;callee=fn,...>: library code contains no `go` statement, and the functions
		// that start a goroutine (the supervisor, the timer) are called only from the listed functions.  The proofs of
		// C13-C16 rest on who runs where: the worker owns the state, the loops end with their context, nothing else
		// runs.  A goroutine started anywhere else is outside every contract.
		allowedBy := map[string]map[string]bool{}
		for _, part := range strings.Split(fs[1], ";") {
			kv := strings.SplitN(part, "=", 2)
			if len(kv) != 2 {
				return fail("bad argument %q", part)
			}
			allowedBy[kv[0]] = map[string]bool{}
			for _, f := range strings.Split(kv[1], ",") {
				allowedBy[kv[0]][f] = true
			}
		}
		found := 0
		for _, fn := range P.allRepoFuncs() {
			if !P.isLibrary(fn) {
				continue
			}
			for _, b := range fn.Blocks {
				for _, ins := range b.Instrs {
					if g, isGo := ins.(*ssa.Go); isGo {
						return fail("%s starts a goroutine with a go statement at %s", P.fnKey(fn), P.fset.Position(g.Pos()))
					}
					c, isCall := ins.(ssa.CallInstruction)
					if !isCall {
						continue
					}
					callee := c.Common().StaticCallee()
					if callee == nil || callee.Pkg == nil {
						continue
					}
					name := callee.Pkg.Pkg.Name() + "." + callee.Name()
					al, watched := allowedBy[name]
					if !watched {
						continue
					}
					found++
					ok2 := false
					for g := fn; g != nil; g = g.Parent() {
						if al[P.fnKey(g)] {
							ok2 = true
						}
					}
					if !ok2 {
						return fail("%s calls %s at %s; only %s may start that kind of goroutine", P.fnKey(fn), name, P.fset.Position(ins.Pos()), fs[1])
					}
				}
			}
		}
		if found == 0 {
			return fail("none of the goroutine-starting calls was found (renamed?)")
		}
		return ok(fmt.Sprintf("no go statement; %d supervised / timer start site(s), all where listed", found))
	case "no-nested-lock":
		// no-nested-lock: a library function that holds a mutex kept in field M of struct type T does not call (directly
		// or through static callees, three levels deep) a function that locks field M of a T again - sync mutexes are
		// not reentrant, the second Lock never returns.
		type lk struct{ typ, field string }
		lockOf := func(c *ssa.CallCommon) (lk, bool, bool) {
			callee := c.StaticCallee()
			if callee == nil || len(c.Args) == 0 || callee.Pkg == nil || callee.Pkg.Pkg.Path() != "sync" {
				return lk{}, false, false
			}
			acq := callee.Name() == "Lock" || callee.Name() == "RLock"
			rel := callee.Name() == "Unlock" || callee.Name() == "RUnlock"
			if !acq && !rel {
				return lk{}, false, false
			}
			v := c.Args[0]
			if fa, ok := v.(*ssa.FieldAddr); ok {
				if st, named := structOfPtrType(fa.X.Type()); st != nil {
					return lk{P.sorts.typeName(named), st.Field(fa.Field).Name()}, acq, rel
				}
			}
			return lk{}, false, false
		}
		acquires := map[*ssa.Function]map[lk]bool{}
		var acqOf func(fn *ssa.Function, depth int) map[lk]bool
		acqOf = func(fn *ssa.Function, depth int) map[lk]bool {
			if m, ok := acquires[fn]; ok {
				return m
			}
			m := map[lk]bool{}
			acquires[fn] = m
			if fn.Blocks == nil || depth > 3 {
				return m
			}
			for _, b := range fn.Blocks {
				for _, ins := range b.Instrs {
					if c, ok := ins.(ssa.CallInstruction); ok {
						if k, acq, _ := lockOf(c.Common()); acq {
							m[k] = true
						} else if cal := c.Common().StaticCallee(); cal != nil && P.isLibrary(cal) {
							for k := range acqOf(cal, depth+1) {
								m[k] = true
							}
						}
					}
				}
			}
			return m
		}
		checked := 0
		for _, fn := range P.allRepoFuncs() {
			if !P.isLibrary(fn) {
				continue
			}
			for _, b := range fn.Blocks {
				held := map[lk]bool{}
				// within a block, in order; a lock taken in the entry block with a deferred unlock is held to the end
				for _, ins := range b.Instrs {
					c, ok := ins.(ssa.CallInstruction)
					if !ok {
						continue
					}
					if _, isDefer := ins.(*ssa.Defer); isDefer {
						continue
					}
					if k, acq, rel := lockOf(c.Common()); acq {
						if held[k] {
							return fail("%s locks %s.%s twice in a row at %s", P.fnKey(fn), k.typ, k.field, P.fset.Position(ins.Pos()))
						}
						held[k] = true
						checked++
						continue
					} else if rel {
						delete(held, k)
						continue
					}
					if len(held) == 0 {
						continue
					}
					if cal := c.Common().StaticCallee(); cal != nil && P.isLibrary(cal) {
						for k := range acqOf(cal, 0) {
							if held[k] {
								return fail("%s calls %s at %s while holding %s.%s, which %s locks again", P.fnKey(fn), P.fnKey(cal), P.fset.Position(ins.Pos()), k.typ, k.field, P.fnKey(cal))
							}
						}
					}
				}
			}
		}
		if checked == 0 {
			return fail("no lock acquisition found (renamed?)")
		}
		return ok(fmt.Sprintf("%d lock acquisition(s), no call under a lock re-locks it", checked))
	case "lock-balanced":
		// lock-balanced: in every library function, a mutex locked on some path is unlocked again, or its unlock is
		// deferred, on every path to a return (a return that leaves a non-reentrant mutex held wedges the next caller for
		// good).  Forward data flow over the CFG: may-held locks (union at joins), must-deferred unlocks (intersection).
		checked := 0
		for _, fn := range P.allRepoFuncs() {
			if !P.isLibrary(fn) {
				continue
			}
			lockKey := func(c *ssa.CallCommon) (key string, acquire, release bool) {
				callee := c.StaticCallee()
				if callee == nil || len(c.Args) == 0 || callee.Pkg == nil || callee.Pkg.Pkg.Path() != "sync" {
					return "", false, false
				}
				k := P.describeValue(c.Args[0])
				switch callee.Name() {
				case "Lock":
					return k + "/w", true, false
				case "RLock":
					return k + "/r", true, false
				case "Unlock":
					return k + "/w", false, true
				case "RUnlock":
					return k + "/r", false, true
				}
				return "", false, false
			}
			has := false
			for _, b := range fn.Blocks {
				for _, ins := range b.Instrs {
					if c, ok := ins.(*ssa.Call); ok {
						if _, acq, _ := lockKey(&c.Call); acq {
							has = true
						}
					}
				}
			}
			if !has {
				continue
			}
			checked++
			type st struct{ held, deferred map[string]bool }
			in := map[*ssa.BasicBlock]*st{fn.Blocks[0]: {map[string]bool{}, map[string]bool{}}}
			out := map[*ssa.BasicBlock]*st{}
			cp := func(m map[string]bool) map[string]bool {
				r := map[string]bool{}
				for k, v := range m {
					if v {
						r[k] = true
					}
				}
				return r
			}
			same := func(a, b map[string]bool) bool {
				if len(a) != len(b) {
					return false
				}
				for k := range a {
					if !b[k] {
						return false
					}
				}
				return true
			}
			violation := ""
			for changed, rounds := true, 0; changed && rounds < 50; rounds++ {
				changed = false
				for _, b := range fn.Blocks {
					var cur *st
					if b == fn.Blocks[0] {
						cur = &st{map[string]bool{}, map[string]bool{}}
					} else {
						for _, p := range b.Preds {
							o := out[p]
							if o == nil {
								continue
							}
							if cur == nil {
								cur = &st{cp(o.held), cp(o.deferred)}
								continue
							}
							for k := range o.held {
								cur.held[k] = true
							}
							for k := range cur.deferred {
								if !o.deferred[k] {
									delete(cur.deferred, k)
								}
							}
						}
						if cur == nil {
							continue
						}
					}
					in[b] = &st{cp(cur.held), cp(cur.deferred)}
					for _, ins := range b.Instrs {
						switch x := ins.(type) {
						case *ssa.Call:
							if k, acq, rel := lockKey(&x.Call); acq {
								cur.held[k] = true
							} else if rel {
								delete(cur.held, k)
							}
						case *ssa.Defer:
							if k, _, rel := lockKey(&x.Call); rel {
								cur.deferred[k] = true
							}
						case *ssa.Return:
							for k := range cur.held {
								if !cur.deferred[k] && violation == "" {
									violation = fmt.Sprintf("%s returns at %s with %s still held and no deferred unlock", P.fnKey(fn), P.fset.Position(x.Pos()), strings.TrimSuffix(strings.TrimSuffix(k, "/w"), "/r"))
								}
							}
						}
					}
					if o := out[b]; o == nil || !same(o.held, cur.held) || !same(o.deferred, cur.deferred) {
						out[b] = cur
						changed = true
					}
				}
				if changed {
					violation = ""
				}
			}
			if violation != "" {
				return fail("%s", violation)
			}
		}
		if checked == 0 {
			return fail("no library function takes a lock (renamed?)")
		}
		return ok(fmt.Sprintf("%d locking function(s), every return path releases what it took", checked))
	case "snapshot-under-one-lock":
		// snapshot-under-one-lock <funcKey> <pkg.Type> <field,field>: the function reads all the listed fields itself, inside
		// one critical section (lock taken in the entry block, unlock deferred), and does not delegate to other methods
		// of the type (each of which would lock separately and allow a torn read)
		fn := P.fnByKey[fs[1]]
		if fn == nil || len(fs) < 4 {
			return fail("bad spec or function %s not found", fs[1])
		}
		want := map[string]bool{}
		for _, f := range strings.Split(fs[3], ",") {
			want[f] = true
		}
		locked, deferred := false, false
		for _, b := range fn.Blocks {
			for _, ins := range b.Instrs {
				switch x := ins.(type) {
				case *ssa.Call:
					if callee := x.Call.StaticCallee(); callee != nil {
						if (callee.Name() == "Lock" || callee.Name() == "RLock") && b.Index == 0 {
							locked = true
						} else if callee.Signature.Recv() != nil && strings.TrimPrefix(P.sorts.typeName(callee.Signature.Recv().Type()), "*") == fs[2] {
							return fail("%s delegates to %s, which takes the lock on its own: the fields are not read in one critical section", fs[1], P.fnKey(callee))
						}
					}
				case *ssa.Defer:
					if callee := x.Call.StaticCallee(); callee != nil && (callee.Name() == "Unlock" || callee.Name() == "RUnlock") {
						deferred = true
					}
				case *ssa.FieldAddr:
					if st, named := structOfPtrType(x.X.Type()); st != nil && P.sorts.typeName(named) == fs[2] {
						if !locked && want[st.Field(x.Field).Name()] {
							return fail("%s reads %s.%s before taking the lock", fs[1], fs[2], st.Field(x.Field).Name())
						}
						delete(want, st.Field(x.Field).Name())
					}
				}
			}
		}
		if len(want) > 0 {
			var missing []string
			for f := range want {
				missing = append(missing, f)
			}
			sort.Strings(missing)
			return fail("%s does not read %s itself", fs[1], strings.Join(missing, ","))
		}
		if !locked || !deferred {
			return fail("%s does not hold one lock for the whole read (lock in entry block: %v, deferred unlock: %v)", fs[1], locked, deferred)
		}
		return ok("all fields read in one critical section")
	case "not-reachable":
		// not-reachable <targetFuncKey> from <rootFuncKey,...>: the static call graph (direct calls, closures created,
		// method values) of the roots does not contain the target
		target := P.fnByKey[fs[1]]
		if target == nil || len(fs) < 4 {
			return fail("bad spec or function %s not found", fs[1])
		}
		for _, rk := range strings.Split(fs[3], ",") {
			root := P.fnByKey[rk]
			if root == nil {
				return fail("root %s not found", rk)
			}
			seen := map[*ssa.Function]bool{}
			var path []string
			var dfs func(fn *ssa.Function) bool
			dfs = func(fn *ssa.Function) bool {
				if fn == target {
					return true
				}
				if seen[fn] || fn.Blocks == nil {
					return false
				}
				seen[fn] = true
				for _, b := range fn.Blocks {
					for _, ins := range b.Instrs {
						var next []*ssa.Function
						if c, isCall := ins.(ssa.CallInstruction); isCall {
							if callee := c.Common().StaticCallee(); callee != nil {
								next = append(next, callee)
							}
						}
						for _, op := range ins.Operands(nil) {
							switch v := (*op).(type) {
							case *ssa.Function:
								next = append(next, v)
							case *ssa.MakeClosure:
								if cf, isF := v.Fn.(*ssa.Function); isF {
									next = append(next, cf)
								}
							}
						}
						for _, nf := range next {
							if dfs(nf) {
								path = append(path, P.fnKey(fn))
								return true
							}
						}
					}
				}
				return false
			}
			if dfs(root) {
				return fail("%s reaches %s via %s", rk, fs[1], strings.Join(path, " <- "))
			}
		}
		return ok("target not in the static call graph of the roots")
	}
	return fail("unknown structural obligation kind %q", fs[0])
}

func ok2struct(label, spec, detail string) []StructObl {
	return []StructObl{{Label: label, What: spec, OK: true, Detail: detail}}
}

func structOfPtrType(t types.Type) (*types.Struct, types.Type) {
	if p, ok := t.Underlying().(*types.Pointer); ok {
		if st, ok := p.Elem().Underlying().(*types.Struct); ok {
			return st, p.Elem()
		}
	}
	return nil, nil
}

// describeValue renders an SSA value as a short source-like path (field names, calls) for matching in specs.
func (P *Program) describeValue(v ssa.Value) string {
	switch x := v.(type) {
	case *ssa.UnOp:
		if x.Op == token.MUL {
			return P.describeValue(x.X)
		}
	case *ssa.FieldAddr:
		if st, _ := structOfPtrType(x.X.Type()); st != nil {
			return P.describeValue(x.X) + "." + st.Field(x.Field).Name()
		}
	case *ssa.Field:
		if st, ok := x.X.Type().Underlying().(*types.Struct); ok {
			return P.describeValue(x.X) + "." + st.Field(x.Field).Name()
		}
	case *ssa.Alloc:
		return x.Comment
	case *ssa.Parameter:
		return x.Name()
	case *ssa.FreeVar:
		return x.Name()
	case *ssa.Call:
		if x.Call.IsInvoke() {
			return P.describeValue(x.Call.Value) + "." + x.Call.Method.Name() + "()"
		}
		if callee := x.Call.StaticCallee(); callee != nil {
			if len(x.Call.Args) > 0 && callee.Signature.Recv() != nil {
				return P.describeValue(x.Call.Args[0]) + "." + callee.Name() + "()"
			}
			return callee.Name() + "()"
		}
	case *ssa.Global:
		return x.Name()
	case *ssa.Extract:
		return P.describeValue(x.Tuple)
	}
	return v.Name()
}
