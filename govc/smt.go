package main

// SMT-LIB query construction and the solver race (DESIGN §2.11).

import (
	"bytes"
	"context"
	"crypto/sha1"
	"fmt"
	"os"
	"os/exec"
	"path/filepath"
	"strings"
	"sync"
	"sync/atomic"
	"time"
)

type Sort = string

const (
	SInt   Sort = "Int"
	SBool  Sort = "Bool"
	SStr   Sort = "Str"
	SBS    Sort = "BS"
	SIface Sort = "Iface"
	SFP    Sort = "(_ FloatingPoint 11 53)"
)

func sx(op string, args ...string) string {
	if len(args) == 0 {
		return op
	}
	return "(" + op + " " + strings.Join(args, " ") + ")"
}

func and(xs ...string) string {
	var ys []string
	for _, x := range xs {
		if x == "true" || x == "" {
			continue
		}
		if x == "false" {
			return "false"
		}
		ys = append(ys, x)
	}
	switch len(ys) {
	case 0:
		return "true"
	case 1:
		return ys[0]
	}
	return sx("and", ys...)
}

func or(xs ...string) string {
	var ys []string
	for _, x := range xs {
		if x == "false" || x == "" {
			continue
		}
		if x == "true" {
			return "true"
		}
		ys = append(ys, x)
	}
	switch len(ys) {
	case 0:
		return "false"
	case 1:
		return ys[0]
	}
	return sx("or", ys...)
}

func not(x string) string {
	switch x {
	case "true":
		return "false"
	case "false":
		return "true"
	}
	if strings.HasPrefix(x, "(not ") && balanced(x[5:len(x)-1]) {
		return x[5 : len(x)-1]
	}
	return sx("not", x)
}

func balanced(s string) bool {
	d := 0
	for _, c := range s {
		if c == '(' {
			d++
		} else if c == ')' {
			d--
			if d < 0 {
				return false
			}
		}
	}
	return d == 0
}

func implies(a, b string) string {
	if a == "true" {
		return b
	}
	if b == "true" || a == "false" {
		return "true"
	}
	return sx("=>", a, b)
}

func ite(c, a, b string) string {
	if c == "true" {
		return a
	}
	if c == "false" {
		return b
	}
	if a == b {
		return a
	}
	return sx("ite", c, a, b)
}

func eq(a, b string) string {
	if a == b {
		return "true"
	}
	return sx("=", a, b)
}

func intLit(v string) string {
	if strings.HasPrefix(v, "-") {
		return "(- " + v[1:] + ")"
	}
	return v
}

// ---- solver race ----

type SolverResult struct {
	Status string // unsat | sat | unknown | timeout | error
	Solver string
	Secs   float64
	Model  string
	Raw    string
	All    map[string]string // per-solver status (thorough tier)
}

type solverSpec struct {
	name string
	args func(file string, secs int) []string
}

var solvers = []solverSpec{
	{"z3-new", func(f string, s int) []string { return []string{"z3-new", fmt.Sprintf("-T:%d", s), f} }},
	{"cvc5", func(f string, s int) []string {
		return []string{"cvc5", "--produce-models", fmt.Sprintf("--tlimit=%d", s*1000), f}
	}},
	{"z3", func(f string, s int) []string { return []string{"z3", fmt.Sprintf("-T:%d", s), f} }},
}

var workDir = "/verif/.work"

var queryCounter int64

func firstStatus(out string) string {
	for _, l := range strings.Split(out, "\n") {
		l = strings.TrimSpace(l)
		switch l {
		case "unsat", "sat", "unknown", "timeout":
			return l
		}
		if strings.HasPrefix(l, "(error") {
			return "error"
		}
	}
	return "error"
}

// cvc5 rejects a few z3-isms; hasQuant says whether to try it at all in modes it is bad at.
func runSolvers(query string, secs int, wantAll bool, only []string) SolverResult {
	os.MkdirAll(workDir, 0o755)
	h := sha1.Sum([]byte(query))
	// GOVC_CACHE=<dir> (seed / false-alarm regression runs only, never set by the registered commands): definitive answers
	// are remembered by the hash of the query text, so the eighteen checks run on one changed tree do not solve the
	// obligations they share eighteen times
	if cdir := os.Getenv("GOVC_CACHE"); cdir != "" && !wantAll {
		cf := filepath.Join(cdir, fmt.Sprintf("%x", h[:12]))
		if b, err := os.ReadFile(cf); err == nil {
			st := strings.TrimSpace(string(b))
			if st == "unsat" || st == "sat" {
				return SolverResult{Status: st, Solver: "cache", Secs: 0.001, All: map[string]string{}}
			}
		}
		defer func() {
			_ = cf
		}()
		res := runSolversUncached(query, h, secs, wantAll, only)
		if res.Status == "unsat" || res.Status == "sat" {
			os.MkdirAll(cdir, 0o755)
			os.WriteFile(cf, []byte(res.Status), 0o644)
		}
		return res
	}
	return runSolversUncached(query, h, secs, wantAll, only)
}

func runSolversUncached(query string, h [20]byte, secs int, wantAll bool, only []string) SolverResult {
	file := filepath.Join(workDir, fmt.Sprintf("q_%x_%d_%d.smt2", h[:8], os.Getpid(), atomic.AddInt64(&queryCounter, 1)))
	if err := os.WriteFile(file, []byte(query), 0o644); err != nil {
		return SolverResult{Status: "error", Raw: err.Error()}
	}
	defer os.Remove(file)
	ctx, cancel := context.WithCancel(context.Background())
	defer cancel()
	type one struct {
		name, status, out string
		secs              float64
	}
	ch := make(chan one, len(solvers))
	var wg sync.WaitGroup
	n := 0
	for _, s := range solvers {
		if len(only) > 0 {
			ok := false
			for _, o := range only {
				if o == s.name {
					ok = true
				}
			}
			if !ok {
				continue
			}
		}
		n++
		wg.Add(1)
		go func(s solverSpec) {
			defer wg.Done()
			t0 := time.Now()
			a := s.args(file, secs)
			c, cc := context.WithTimeout(ctx, time.Duration(secs+2)*time.Second)
			defer cc()
			cmd := exec.CommandContext(c, a[0], a[1:]...)
			var ob bytes.Buffer
			cmd.Stdout = &ob
			cmd.Stderr = &ob
			cmd.Run()
			st := firstStatus(ob.String())
			if c.Err() != nil && st == "error" {
				st = "timeout"
			}
			ch <- one{s.name, st, ob.String(), time.Since(t0).Seconds()}
		}(s)
	}
	res := SolverResult{Status: "unknown", All: map[string]string{}}
	got := 0
	t0 := time.Now()
	for got < n {
		o := <-ch
		got++
		res.All[o.name] = o.status
		if o.status == "unsat" || o.status == "sat" {
			if res.Status != "unsat" && res.Status != "sat" {
				res.Status, res.Solver, res.Secs, res.Raw = o.status, o.name, o.secs, o.out
				if o.status == "sat" {
					res.Model = o.out
				}
			} else if res.Status != o.status {
				// disagreement: sat from any solver is a failure
				res.Status = "sat"
				res.Raw += "\nDISAGREEMENT with " + o.name + ": " + o.status
				if o.status == "sat" {
					res.Model = o.out
					res.Solver = o.name
				}
			}
			if !wantAll {
				cancel()
				break
			}
		} else if res.Status != "unsat" && res.Status != "sat" {
			if o.status == "timeout" || res.Status == "unknown" {
				if res.Raw == "" || o.status == "error" {
					res.Raw += fmt.Sprintf("[%s: %s] %s\n", o.name, o.status, firstLines(o.out, 3))
				}
			}
		}
	}
	if res.Secs == 0 {
		res.Secs = time.Since(t0).Seconds()
	}
	go func() { wg.Wait() }()
	return res
}

func firstLines(s string, n int) string {
	ls := strings.Split(s, "\n")
	if len(ls) > n {
		ls = ls[:n]
	}
	return strings.Join(ls, " | ")
}

// parseModel extracts (define-fun name () Sort value) entries of nullary constants from a z3/cvc5 model.
func parseModel(m string) map[string]string {
	out := map[string]string{}
	toks := tokenizeSexp(m)
	// find sequences: ( define-fun NAME ( ) SORT VALUE )
	for i := 0; i+4 < len(toks); i++ {
		if toks[i] == "(" && toks[i+1] == "define-fun" && toks[i+3] == "(" && toks[i+4] == ")" {
			name := toks[i+2]
			j := i + 5
			// sort
			j = skipSexp(toks, j)
			k := skipSexp(toks, j)
			out[strings.Trim(name, "|")] = strings.Join(toks[j:k], " ")
			i = k
		}
	}
	return out
}

func tokenizeSexp(s string) []string {
	var toks []string
	i := 0
	for i < len(s) {
		c := s[i]
		switch {
		case c == '(' || c == ')':
			toks = append(toks, string(c))
			i++
		case c == ' ' || c == '\n' || c == '\t' || c == '\r':
			i++
		case c == ';':
			for i < len(s) && s[i] != '\n' {
				i++
			}
		case c == '|':
			j := i + 1
			for j < len(s) && s[j] != '|' {
				j++
			}
			toks = append(toks, s[i:j+1])
			i = j + 1
		case c == '"':
			j := i + 1
			for j < len(s) && s[j] != '"' {
				j++
			}
			toks = append(toks, s[i:j+1])
			i = j + 1
		default:
			j := i
			for j < len(s) && !strings.ContainsRune("() \n\t\r", rune(s[j])) {
				j++
			}
			toks = append(toks, s[i:j])
			i = j
		}
	}
	return toks
}

func skipSexp(toks []string, j int) int {
	if j >= len(toks) {
		return j
	}
	if toks[j] != "(" {
		return j + 1
	}
	d := 0
	for j < len(toks) {
		if toks[j] == "(" {
			d++
		} else if toks[j] == ")" {
			d--
			if d == 0 {
				return j + 1
			}
		}
		j++
	}
	return j
}
