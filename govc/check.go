package main

// `govc check <PROP>`: decide one property (DESIGN §2.13/2.14): generate VCs of every function whose contract is
// tagged with the property, run the spec lemmas tagged with it, classify, replay, write evidence, set exit code.

import (
	"runtime"
	"bytes"
	"encoding/json"
	"flag"
	"fmt"
	"os"
	"os/exec"
	"path/filepath"
	"regexp"
	"sort"
	"strings"
	"time"
)

type KnownFinding struct {
	Property string `json:"property"`
	Label    string `json:"label"` // "<function key>::<obligation label>"
	Status   string `json:"status"` // finding | fixed
	What     string `json:"what"`
	Commit   string `json:"commit,omitempty"`
	Input    string `json:"input_signature,omitempty"`
}

type PropMeta struct {
	ID          string   `json:"id"`
	Level       string   `json:"level"`
	Assumptions []string `json:"assumptions"`
	NotDecided  string   `json:"not_decided"`
	Structural  []string `json:"structural"`
	Bounded     []string `json:"bounded"`
	Explanation string   `json:"explanation"`
}

type oblRecord struct {
	Label   string  `json:"label"`
	Kind    string  `json:"kind"`
	Verdict string  `json:"verdict"`
	Solver  string  `json:"solver,omitempty"`
	Secs    float64 `json:"secs"`
	Pos     string  `json:"pos,omitempty"`
	Src     string  `json:"src,omitempty"`
}

var propTag = regexp.MustCompile(`\[((?:C\d+,?)+):`)

func hasProp(props []string, id string) bool {
	for _, p := range props {
		if p == id {
			return true
		}
	}
	return false
}

func cmdCheck(args []string) {
	fs := flag.NewFlagSet("check", flag.ExitOnError)
	repo := fs.String("repo", "/repo", "repository")
	verif := fs.String("verif", "/verif", "verif dir")
	tier := fs.String("tier", envOr("VERIF_TIER", "quick"), "quick|thorough")
	update := fs.Bool("update-baseline", false, "rewrite expect.json entries of this property from this run")
	dump := fs.String("dump", "", "dump queries")
	fs.Parse(args)
	if fs.NArg() < 1 {
		fmt.Fprintln(os.Stderr, "usage: govc check [flags] <PROPERTY>")
		os.Exit(2)
	}
	dumpDir = *dump
	prop := fs.Arg(0)
	seed := 0
	fmt.Sscanf(os.Getenv("VERIF_SEED"), "%d", &seed)
	if *tier != "thorough" {
		*tier = "quick"
	}
	t0 := time.Now()
	workDir = filepath.Join(*verif, ".work")
	P, err := loadProgram(*repo, *verif)
	if err != nil {
		fmt.Println("ENGINE-ERROR: cannot load /repo:", err)
		os.Exit(2)
	}
	secs := 10
	if *tier == "thorough" {
		secs = 60
	}
	meta := loadMeta(*verif, prop)

	// 1. functions under contract for this property
	var frs []*FuncResult
	var obls []*Obligation
	for _, con := range P.contracts.All {
		if con.Kind != "func" || con.NoBody || !hasProp(con.Props, prop) {
			continue
		}
		fr := safeGenVC(P, con)
		frs = append(frs, fr)
		for _, o := range fr.Obls {
			// a clause label of the form [C07:...] (or [C07,C04:...]) restricts the obligation to those properties
			if m := propTag.FindStringSubmatch(o.Label); m != nil && !hasProp(strings.Split(m[1], ","), prop) {
				continue
			}
			obls = append(obls, o)
		}
	}
	// 1b. contract closure: a caller is checked against its callee's contract, not its body, so the property also rests
	// on every verified callee contract its functions use; those callees are verified in the same run (transitively)
	{
		done := map[string]bool{}
		for _, fr := range frs {
			done[fr.Key] = true
		}
		for i := 0; i < len(frs); i++ {
			for _, u := range frs[i].Used {
				if !strings.HasPrefix(u, "USES-CONTRACT:") {
					continue
				}
				k := strings.TrimPrefix(u, "USES-CONTRACT:")
				con := P.contracts.ByKey[k]
				if con == nil || done[k] || con.Kind != "func" || con.NoBody {
					continue
				}
				done[k] = true
				fr := safeGenVC(P, con)
				frs = append(frs, fr)
				for _, o := range fr.Obls {
					if m := propTag.FindStringSubmatch(o.Label); m != nil && !hasProp(strings.Split(m[1], ","), prop) {
						continue
					}
					obls = append(obls, o)
				}
			}
		}
	}
	// 2. lemmas
	lemmas := P.lemmaObligations(prop)
	obls = append(obls, lemmas...)
	// 3. structural obligations
	structural := P.structuralObligations(prop, meta)

	P.discharge(obls, secs, *tier == "thorough", 16)
	// an obligation without an answer whose ground witness is refuted is refuted (with the witness's model)
	{
		var ws []*Obligation
		for _, o := range obls {
			if !o.MustFail && o.Res.Status != "unsat" && o.Res.Status != "sat" {
				ws = append(ws, o.Witnesses...)
			}
		}
		if len(ws) > 0 {
			P.discharge(ws, secs, false, 16)
			for _, o := range obls {
				if o.MustFail || o.Res.Status == "unsat" || o.Res.Status == "sat" {
					continue
				}
				for _, w := range o.Witnesses {
					if w.Res.Status == "sat" {
						o.Res = w.Res
						o.Src += " [refuted at " + w.Label[strings.LastIndex(w.Label, ".at["):] + "]"
						break
					}
					if w.Res.Status != "unsat" && o.Kind == "frame" {
						o.NotExcluded = true
						o.Src += " [an undeclared write to the object in " + w.Label[strings.LastIndex(w.Label, ".at[")+4:len(w.Label)-1] + ", which exists at entry, cannot be excluded]"
					}
				}
			}
		}
	}

	// 4. classify
	baseline := loadBaseline(*verif)
	known := loadKnown(*verif)
	// the baseline is matched modulo ordinals (#k of a call site / safety check, @k of a loop latch): inserting or
	// removing a statement renumbers them, and an obligation that was discharged before and now gets no answer must still
	// be reported
	inBaseExact := map[string]bool{}
	inBaseNorm := map[string]bool{}
	for _, l := range baseline[prop] {
		inBaseExact[l] = true
		inBaseNorm[normLabel(l)] = true
	}
	inBase := labelSet{inBaseExact, inBaseNorm}
	// obligations of the discharged baseline that came back without an answer are retried with little
	// parallelism and three times the budget before they are reported: a loaded machine must not raise an alarm
	var retry []*Obligation
	for _, o := range obls {
		if !o.MustFail && o.Res.Status != "unsat" && o.Res.Status != "sat" && inBase.has(o.Fn+"::"+o.Label) {
			retry = append(retry, o)
		}
	}
	if len(retry) > 0 {
		// the budget is wall-clock time: on a machine whose run queue is longer than its cores each solver gets a
		// fraction of it, so the retry budget is scaled by the load (at most 6 times)
		P.discharge(retry, 3*secs*loadFactor(), false, 3)
	}
	undecidedFns := map[string][]string{}
	for _, fr := range frs {
		if len(fr.Errs) > 0 {
			undecidedFns[fr.Key] = fr.Errs
		}
	}
	var records []oblRecord
	discharged, total, violations := 0, 0, 0
	var lines []string
	undecided := []string{}
	var newBase []string
	os.MkdirAll(filepath.Join(*verif, "replays"), 0o755)
	knownHit := map[string]bool{}
	for _, o := range obls {
		full := o.Fn + "::" + o.Label
		st := o.Res.Status
		rec := oblRecord{Label: full, Kind: o.Kind, Solver: o.Res.Solver, Secs: round2(o.Res.Secs), Pos: o.Pos, Src: o.Src}
		if o.MustFail {
			// vacuity / canary: must NOT be provable
			if st == "unsat" {
				rec.Verdict = "VACUOUS"
				undecided = append(undecided, fmt.Sprintf("UNDECIDED property=%s obligation=%s reason=vacuity check failed: contradiction among assumptions/requires (proofs of this function are not trusted)", prop, full))
				undecidedFns[o.Fn] = append(undecidedFns[o.Fn], "vacuous assumptions")
			} else {
				rec.Verdict = "NONVACUOUS(" + st + ")"
			}
			records = append(records, rec)
			continue
		}
		total++
		switch {
		case st == "unsat":
			rec.Verdict = "PROVED"
			discharged++
			newBase = append(newBase, full)
		case matchKnown(known, prop, full) != nil:
			kf := matchKnown(known, prop, full)
			rec.Verdict = "KNOWN-FINDING"
			if !knownHit[kf.Label] {
				lines = append(lines, fmt.Sprintf("KNOWN-FINDING: property=%s %s [%s]", prop, kf.What, full))
				knownHit[kf.Label] = true
			}
		case len(undecidedFns[o.Fn]) > 0 && !(o.NotExcluded && strings.HasPrefix(o.Label, "frame[backing-array]")):
			// (an in-place rewrite of a slice the caller still sees is reported even when the rest of the function is outside the subset)
			rec.Verdict = "UNDECIDED"
			undecided = append(undecided, fmt.Sprintf("UNDECIDED property=%s obligation=%s reason=%s", prop, full, undecidedFns[o.Fn][0]))
		case st == "sat" || inBase.has(full) || o.NotExcluded:
			rec.Verdict = "FAILED"
			if st != "sat" {
				rec.Verdict = "FAILED-no-model"
			}
			if kf := matchKnown(known, prop, full); kf != nil {
				rec.Verdict = "KNOWN-FINDING"
				if !knownHit[kf.Label] {
					lines = append(lines, fmt.Sprintf("KNOWN-FINDING: property=%s %s [%s]", prop, kf.What, full))
					knownHit[kf.Label] = true
				}
			} else {
				violations++
				rp := writeReplay(P, *verif, prop, o)
				suffix := ""
				if !rp.confirmed {
					suffix = " no-failing-input-found"
				}
				lines = append(lines, fmt.Sprintf("VIOLATION property=%s replay=%s%s", prop, rp.path, suffix))
				lines = append(lines, fmt.Sprintf("  failed obligation %s at %s: %s", full, o.Pos, o.Src))
			}
		default:
			rec.Verdict = "UNDECIDED"
			undecided = append(undecided, fmt.Sprintf("UNDECIDED property=%s obligation=%s reason=solvers answered %s (%v) and the label is not in the discharged baseline", prop, full, st, o.Res.All))
		}
		records = append(records, rec)
	}
	for _, so := range structural {
		total++
		rec := oblRecord{Label: "structural::" + so.Label, Kind: "structural", Src: so.What, Solver: "ssa-scan"}
		if so.OK {
			rec.Verdict = "PROVED"
			discharged++
			newBase = append(newBase, rec.Label)
		} else {
			rec.Verdict = "FAILED"
			if kf := matchKnown(known, prop, rec.Label); kf != nil {
				rec.Verdict = "KNOWN-FINDING"
				lines = append(lines, fmt.Sprintf("KNOWN-FINDING: property=%s %s [%s]", prop, kf.What, rec.Label))
			} else {
				violations++
				path := filepath.Join(*verif, "replays", prop+"_"+mangle(so.Label)+".json")
				b, _ := json.MarshalIndent(map[string]interface{}{"property": prop, "obligation": rec.Label, "what": so.What, "detail": so.Detail, "kind": "structural"}, "", " ")
				os.WriteFile(path, b, 0o644)
				lines = append(lines, fmt.Sprintf("VIOLATION property=%s replay=%s no-failing-input-found", prop, path))
				lines = append(lines, fmt.Sprintf("  failed structural obligation %s: %s", so.Label, so.Detail))
			}
		}
		records = append(records, rec)
	}
	// 4b. bounded stand-ins for assumed dependency behaviour (labelled bounded, never counted as proved)
	boundedRuns := []map[string]interface{}{}
	for _, spec := range meta.Bounded {
		br := runBounded(*repo, *verif, spec, *tier, seed)
		boundedRuns = append(boundedRuns, br)
		label := "bounded::" + fmt.Sprint(br["name"])
		if ok, _ := br["ok"].(bool); !ok {
			if kf := matchKnown(known, prop, label); kf != nil {
				lines = append(lines, fmt.Sprintf("KNOWN-FINDING: property=%s %s [%s]", prop, kf.What, label))
			} else {
				violations++
				path := filepath.Join(*verif, "replays", prop+"_"+mangle(label)+".json")
				b, _ := json.MarshalIndent(map[string]interface{}{"property": prop, "obligation": label, "kind": "bounded", "spec": spec, "run": br}, "", " ")
				os.WriteFile(path, b, 0o644)
				lines = append(lines, fmt.Sprintf("VIOLATION property=%s replay=%s", prop, path))
				lines = append(lines, fmt.Sprintf("  bounded check %s failed on the real code: %s", br["name"], truncate(fmt.Sprint(br["failure"]), 400)))
			}
		}
	}
	for fn, errs := range undecidedFns {
		for _, e := range errs {
			undecided = append(undecided, fmt.Sprintf("UNDECIDED property=%s function=%s reason=%s", prop, fn, e))
		}
	}
	// baseline delta
	nowSet := map[string]bool{}
	for _, r := range records {
		nowSet[r.Label] = true
	}
	missing := []string{}
	for l := range inBaseExact {
		if !nowSet[l] {
			missing = append(missing, l)
		}
	}
	sort.Strings(missing)
	sort.Strings(undecided)
	undecided = uniq(undecided)

	if total == 0 {
		fmt.Printf("ENGINE-ERROR: property %s generated zero obligations (vacuity guard)\n", prop)
		os.Exit(2)
	}
	if *update {
		baseline[prop] = uniq(sortS(newBase))
		saveBaseline(*verif, baseline)
		// parameter names and types of every function under contract, so that a later rename is recognised as one
		bp := map[string][][2]string{}
		if b, err := os.ReadFile(filepath.Join(*verif, "expect_params.json")); err == nil {
			json.Unmarshal(b, &bp)
		}
		for _, con := range P.contracts.All {
			if fn := P.fnByKey[con.Key]; con.Kind == "func" && fn != nil && fn.Signature != nil {
				bp[con.Key] = paramSig(fn.Signature)
			}
		}
		if b, err := json.MarshalIndent(bp, "", " "); err == nil {
			os.WriteFile(filepath.Join(*verif, "expect_params.json"), b, 0o644)
		}
	}

	// 5. evidence
	level := meta.Level
	if level == "" {
		level = "proof"
	}
	if discharged < total {
		level = "other"
	}
	var fnDesc []map[string]interface{}
	assume := map[string]bool{}
	for _, a := range meta.Assumptions {
		assume[a] = true
	}
	for _, fr := range frs {
		var au, vc []string
		for _, u := range fr.Used {
			if strings.HasPrefix(u, "USES-CONTRACT:") {
				vc = append(vc, strings.TrimPrefix(u, "USES-CONTRACT:"))
			} else {
				au = append(au, u)
				assume[u] = true
			}
		}
		fnDesc = append(fnDesc, map[string]interface{}{"function": fr.Key, "at": fr.Pos, "obligations": len(fr.Obls), "inlined_callees": fr.Inlined, "assumptions_used": au, "callee_contracts_verified_in_this_run": vc, "undecided": fr.Errs})
	}
	assumptions := []string{}
	for a := range assume {
		assumptions = append(assumptions, P.describeAssumption(a))
	}
	sort.Strings(assumptions)
	solverTime := 0.0
	bySolver := map[string]int{}
	for _, o := range obls {
		solverTime += o.Res.Secs
		if o.Res.Status == "unsat" {
			bySolver[o.Res.Solver]++
		}
	}
	var samples []interface{}
	for i, o := range obls {
		if i%max(1, len(obls)/4) == 0 && len(samples) < 5 && o.vc != nil {
			samples = append(samples, map[string]interface{}{"obligation": o.Fn + "::" + o.Label, "goal": truncate(o.Goal, 600), "under": truncate(o.Reach, 200), "hypotheses": o.NAssert, "source_clause": o.Src, "verdict": o.Res.Status})
		}
	}
	if len(samples) == 0 {
		for _, o := range obls {
			samples = append(samples, map[string]interface{}{"obligation": o.Fn + "::" + o.Label, "source_clause": o.Src, "verdict": o.Res.Status})
			if len(samples) >= 3 {
				break
			}
		}
	}
	if len(samples) == 0 {
		for _, r := range records {
			samples = append(samples, r)
			if len(samples) >= 3 {
				break
			}
		}
	}
	expl := meta.Explanation
	if level == "other" && expl == "" {
		expl = fmt.Sprintf("%d of %d obligations discharged on this run; the rest are listed under undecided/failed", discharged, total)
	}
	cov := map[string]interface{}{
		"obligations": total, "discharged": discharged,
		"checker_cmd":  fmt.Sprintf("/verif/check %s --tier %s  (govc: go/ssa naive form -> SMT-LIB; solvers raced: z3-new 5.1.0, cvc5 1.0, z3 4.8.12; %ds per solver)", prop, *tier, secs),
		"trusted_base": []string{"T-ENGINE: govc (SSA->VC translation, contract parser), go/ssa, go/types", "T-SMT: z3 / cvc5 soundness"},
		"functions_under_contract": fnDesc, "obligation_results": records, "discharged_by_solver": bySolver,
		"solver_time_s": round2(solverTime), "samples": samples, "undecided": undecided, "baseline_labels_missing_in_this_run": missing,
		"not_decided_clauses": meta.NotDecided, "explanation": expl, "lemmas": len(lemmas), "structural": len(structural),
		"contract_files": P.contracts.Files,
	}
	if len(boundedRuns) > 0 {
		cov["bounded"] = boundedRuns
	}
	ev := map[string]interface{}{"property_id": prop, "tier": *tier, "seed": seed, "level": level, "coverage": cov,
		"assumptions": assumptions, "wall_s": round2(time.Since(t0).Seconds()), "violations": violations}
	os.MkdirAll(filepath.Join(*verif, "evidence"), 0o755)
	b, _ := json.MarshalIndent(ev, "", " ")
	os.WriteFile(filepath.Join(*verif, "evidence", prop+".json"), b, 0o644)

	// 6. report
	fmt.Printf("property %s tier=%s: %d obligations, %d discharged, %d violations, %d undecided lines, %.1fs\n", prop, *tier, total, discharged, violations, len(undecided), time.Since(t0).Seconds())
	for _, u := range undecided {
		fmt.Println(u)
	}
	if len(missing) > 0 {
		fmt.Printf("NOTE: %d baseline obligations were not generated on this run (source changed?): %s\n", len(missing), strings.Join(missing[:min(len(missing), 5)], "; "))
	}
	for _, l := range lines {
		fmt.Println(l)
	}
	if violations > 0 {
		os.Exit(1)
	}
	os.Exit(0)
}

func envOr(k, d string) string {
	if v := os.Getenv(k); v != "" {
		return v
	}
	return d
}

func round2(x float64) float64 { return float64(int(x*100+0.5)) / 100 }

func truncate(s string, n int) string {
	if len(s) > n {
		return s[:n] + "…"
	}
	return s
}

func uniq(xs []string) []string {
	var out []string
	for i, x := range xs {
		if i == 0 || x != xs[i-1] {
			out = append(out, x)
		}
	}
	return out
}

func sortS(xs []string) []string { sort.Strings(xs); return xs }

func loadMeta(verif, prop string) PropMeta {
	var m PropMeta
	b, err := os.ReadFile(filepath.Join(verif, "props", prop+".json"))
	if err == nil {
		json.Unmarshal(b, &m)
	}
	m.ID = prop
	return m
}

func loadBaseline(verif string) map[string][]string {
	m := map[string][]string{}
	b, err := os.ReadFile(filepath.Join(verif, "expect.json"))
	if err == nil {
		json.Unmarshal(b, &m)
	}
	return m
}

func saveBaseline(verif string, m map[string][]string) {
	b, _ := json.MarshalIndent(m, "", " ")
	os.WriteFile(filepath.Join(verif, "expect.json"), b, 0o644)
}

func loadKnown(verif string) []KnownFinding {
	var k []KnownFinding
	b, err := os.ReadFile(filepath.Join(verif, "known_findings.json"))
	if err == nil {
		json.Unmarshal(b, &k)
	}
	return k
}

func matchKnown(known []KnownFinding, prop, label string) *KnownFinding {
	for i := range known {
		k := &known[i]
		if k.Status == "finding" && k.Label == label { // the same obligation may serve several properties
			_ = prop
			return k
		}
	}
	return nil
}

// ---------- lemmas ----------

func (P *Program) lemmaObligations(prop string) []*Obligation {
	files, _ := filepath.Glob(filepath.Join(P.verifDir, "specs", "lemmas", "*.smt2"))
	sort.Strings(files)
	var out []*Obligation
	for _, f := range files {
		data, err := os.ReadFile(f)
		if err != nil {
			continue
		}
		text := string(data)
		var props []string
		what := ""
		var exclude []string
		for _, l := range strings.Split(text, "\n") {
			if strings.HasPrefix(l, "; exclude-sections:") {
				exclude = strings.Fields(l[len("; exclude-sections:"):])
			}
			if strings.HasPrefix(l, "; props:") {
				props = strings.Fields(strings.ReplaceAll(l[len("; props:"):], ",", " "))
			}
			if strings.HasPrefix(l, "; lemma:") {
				what = strings.TrimSpace(l[len("; lemma:"):])
			}
		}
		if !hasProp(props, prop) {
			continue
		}
		// a lemma file may contain several (push)(pop)-free goals separated by ";; goal <name>" lines; each goal is
		// checked in its own query consisting of the common header (text before the first goal) + that goal.
		parts := strings.Split(text, ";; goal ")
		header := parts[0]
		for _, g := range parts[1:] {
			nl := strings.Index(g, "\n")
			name := strings.TrimSpace(g[:nl])
			body := g[nl+1:]
			mustFail := strings.HasPrefix(name, "CANARY")
			q := baseHeader + P.preludeEx(header+body, P.sorts, exclude) + header + body + "(check-sat)\n(get-model)\n"
			out = append(out, &Obligation{Label: name, Kind: "lemma", Fn: "lemma:" + filepath.Base(f), Goal: q, Src: what, MustFail: mustFail})
		}
	}
	return out
}

// ---------- replay files ----------

type replayResult struct {
	path      string
	confirmed bool
}

func writeReplay(P *Program, verif, prop string, o *Obligation) replayResult {
	path := filepath.Join(verif, "replays", prop+"_"+mangle(o.Fn+"_"+o.Label)+".json")
	rep := map[string]interface{}{
		"property": prop, "obligation": o.Fn + "::" + o.Label, "kind": o.Kind, "position": o.Pos, "clause": o.Src,
		"solver_status": o.Res.Status, "solver": o.Res.Solver, "per_solver": o.Res.All, "solver_output": truncate(o.Res.Raw, 20000),
	}
	confirmed := false
	if o.Res.Status == "sat" && o.vc != nil {
		model := parseModel(o.Res.Model)
		inputs := map[string]string{}
		for k, v := range model {
			if strings.HasPrefix(k, "p_") {
				inputs[k] = v
			}
		}
		rep["counterexample_inputs"] = inputs
		if rr := safeReplay(P, o, model); rr != nil {
			rep["replay"] = rr
			if c, ok := rr["confirmed"].(bool); ok && c {
				confirmed = true
			}
		}
	}
	rep["confirmed_on_real_code"] = confirmed
	b, _ := json.MarshalIndent(rep, "", " ")
	os.WriteFile(path, b, 0o644)
	return replayResult{path, confirmed}
}

var assumptionText = map[string]string{
	"A-LOG":    "A-LOG: logger methods, fmt/errors formatting, metrics constructors are effect-free and do not panic (calls skipped)",
	"A-NONNIL": "A-NONNIL: receivers and configured SPI fields are non-nil where the function's safety level does not check nil dereference",
	"A-CHAN":   "A-CHAN: select/channel operations are nondeterministic choices / abstract effects (no scheduling, fairness or blocking claims)",
	"A-HEX":    "A-HEX: MemberId.String() (hex encoding) is injective on byte strings",
	"A-PRIM":   "A-PRIM: primitives.X.Equal is bytes.Equal / == on the underlying value (read from the generated source)",
	"A-STD":    "A-STD: context / sync / time behave as documented (Err() may turn non-nil at any time; WithCancel returns a fresh child)",
	"A-SORT":   "A-SORT: sort.Slice leaves a permutation with no inversion w.r.t. less",
	"A-POW":    "A-POW: math.Pow(2,k) is exactly 2^k for integral 0<=k<=1023 and +Inf above",
	"A-CVT":    "A-CVT: amd64 float->int conversion of out-of-range values yields the integer-indefinite value",
	"A-ITER":   "A-ITER: a membuffers iterator enumerates a fixed finite sequence of its message (seq_len / seq_at), in order",
	"T-FP":     "T-FP: float64 arithmetic is IEEE-754 binary64 round-to-nearest-even as in SMT-LIB FloatingPoint",
}

func (P *Program) describeAssumption(a string) string {
	if t, ok := assumptionText[a]; ok {
		return t
	}
	if strings.HasPrefix(a, "ASSUMED-CONTRACT:") {
		return "assumed contract of dependency/interface method " + strings.TrimPrefix(a, "ASSUMED-CONTRACT:") + " (its body is outside the verified code)"
	}
	if strings.HasPrefix(a, "A-PURE:") {
		return "A-PURE: methods of " + strings.TrimPrefix(a, "A-PURE:") + " are observationally pure accessors of immutable message objects (uninterpreted functions of their arguments; membuffers bodies not verified)"
	}
	if strings.HasPrefix(a, "A-SPI:") {
		return "A-SPI: consumer SPI method " + strings.TrimPrefix(a, "A-SPI:") + " without an explicit contract: arbitrary result, no effect on library state"
	}
	if strings.HasPrefix(a, "A-STD-PURE:") {
		return "A-STD-PURE: standard-library function " + strings.TrimPrefix(a, "A-STD-PURE:") + " is effect-free on library state (no pointer/map/channel/function argument): arbitrary result"
	}
	if strings.HasPrefix(a, "ABSTRACTED:") {
		return "abstracted (over-approximation, not an assumption): " + strings.TrimPrefix(a, "ABSTRACTED:")
	}
	if strings.HasPrefix(a, "DEVIRTUALISED:") {
		return "note (not an assumption): an interface call was additionally tied to the real body of " + strings.TrimPrefix(a, "DEVIRTUALISED:") + ", inlined from the current source"
	}
	if strings.HasPrefix(a, "CLOSURE-SPEC:") {
		return "note (not an assumption): closure " + strings.TrimPrefix(a, "CLOSURE-SPEC:") + " is summarised by its own verified contract at the use site"
	}
	if strings.HasPrefix(a, "A-RELY:") {
		return "A-RELY: before " + strings.TrimPrefix(a, "A-RELY:") + " is applied at a call site, the cells its contract lists under `interferes` take arbitrary values constrained by its `rely` clauses (another goroutine may have changed them); the rely clauses themselves are assumed, the guarantee side (that the other goroutine respects them) is not checked"
	}
	if strings.HasPrefix(a, "PARAM-RENAMED:") {
		return "note (not an assumption): a parameter renamed since the baseline is bound to its old name in the contract of " + strings.TrimPrefix(a, "PARAM-RENAMED:")
	}
	if strings.HasPrefix(a, "UNTRACKED-FIELD:") {
		return "note (not an assumption): cell " + strings.TrimPrefix(a, "UNTRACKED-FIELD:") + " is written, no contract, spec or property configuration mentions that field: implicitly in `modifies`, no frame obligation"
	}
	if strings.HasPrefix(a, "ASSUMED-CLAUSE:") {
		return "assumed clause (at call sites only, body not obliged to establish it) " + strings.TrimPrefix(a, "ASSUMED-CLAUSE:")
	}
	if strings.HasPrefix(a, "ENTRY-ASSUMPTION:") {
		return "entry assumption (modelling convention, not an obligation at call sites) " + strings.TrimPrefix(a, "ENTRY-ASSUMPTION:")
	}
	return a
}

// runBounded runs one bounded stand-in: a Go test kept under /verif/bounded, injected into a package of the current /repo
// tree with `go test -overlay` (nothing is written into /repo). spec: "<pkg dir> <file> <test regex> <quick bound> <thorough bound>".
func runBounded(repo, verif, spec, tier string, seed int) map[string]interface{} {
	fs := strings.Fields(spec)
	out := map[string]interface{}{"spec": spec, "label": "bounded", "ok": false}
	if len(fs) < 5 {
		out["failure"] = "bad bounded spec"
		return out
	}
	out["name"] = fs[2]
	bound := fs[3]
	if tier == "thorough" {
		bound = fs[4]
	}
	out["bound_iterations"] = bound
	pkgDir := filepath.Join(repo, fs[0])
	os.MkdirAll(workDir, 0o755)
	ov := filepath.Join(workDir, fmt.Sprintf("ovb_%d_%d.json", os.Getpid(), time.Now().UnixNano()))
	ovb, _ := json.Marshal(map[string]interface{}{"Replace": map[string]string{filepath.Join(pkgDir, "zz_verif_bounded_test.go"): filepath.Join(verif, "bounded", fs[1])}})
	os.WriteFile(ov, ovb, 0o644)
	defer os.Remove(ov)
	t0 := time.Now()
	// a bounded run that does not finish is a failure (a deadlock in the code under test), not a reason to wait
	limit := "180s"
	if tier == "thorough" {
		limit = "1500s"
	}
	cmd := exec.Command("go", "test", "-tags", "verif", "-overlay", ov, "-vet=off", "-count=1", "-timeout", limit, "-v", "-run", fs[2], ".")
	cmd.Dir = pkgDir
	if seed == 0 {
		seed = 1
	}
	cmd.Env = append(os.Environ(), "GOFLAGS=-mod=mod", "GOPROXY=off", "GOSUMDB=off", "GOTOOLCHAIN=local", "VERIF_BOUND="+bound, fmt.Sprintf("VERIF_SEED=%d", seed))
	var ob bytes.Buffer
	cmd.Stdout = &ob
	cmd.Stderr = &ob
	err := cmd.Run()
	outS := ob.String()
	out["secs"] = round2(time.Since(t0).Seconds())
	oks := []string{}
	for _, l := range strings.Split(outS, "\n") {
		if strings.HasPrefix(l, "VERIF-BOUNDED-OK") {
			oks = append(oks, l)
		}
		if i := strings.Index(l, "VERIF-BOUNDED-FAIL"); i >= 0 && out["failure"] == nil {
			out["failure"] = l[i:]
		}
		if strings.HasPrefix(l, "panic: test timed out") && out["failure"] == nil {
			out["failure"] = "the bounded run did not finish within " + limit + " (" + l + "): the code under test blocks"
		}
	}
	out["completed"] = oks
	if err == nil && len(oks) > 0 && out["failure"] == nil {
		out["ok"] = true
	} else {
		if out["failure"] == nil {
			out["failure"] = "go test did not report success: " + truncate(outS, 1500)
		}
		out["output"] = truncate(outS, 6000)
	}
	return out
}

type labelSet struct{ exact, norm map[string]bool }

func (s labelSet) has(l string) bool { return s.exact[l] || s.norm[normLabel(l)] }

var ordinalRe = regexp.MustCompile(`[#@]\d+`)

func normLabel(l string) string { return ordinalRe.ReplaceAllString(l, "#*") }

// safeReplay never lets a defect of the replay generator take the check down: a replay that cannot be produced is
// reported as such and the violation is printed with no-failing-input-found.
func safeReplay(P *Program, o *Obligation, model map[string]string) (rr map[string]interface{}) {
	defer func() {
		if r := recover(); r != nil {
			rr = map[string]interface{}{"skipped": fmt.Sprintf("replay generator failed: %v", r)}
		}
	}()
	return P.replayOnCode(o, model)
}

// safeGenVC turns a crash of the VC generator on one function (a construct it does not handle) into an UNDECIDED
// function instead of a broken check.
func safeGenVC(P *Program, con *Contract) (fr *FuncResult) {
	defer func() {
		if r := recover(); r != nil {
			fr = &FuncResult{Key: con.Key, Contract: con, Errs: []string{fmt.Sprintf("engine failure while generating the conditions of this function: %v", r)}}
		}
	}()
	fr, _ = P.genVC(con)
	return fr
}

func loadFactor() int {
	d, err := os.ReadFile("/proc/loadavg")
	if err != nil {
		return 1
	}
	var l1 float64
	fmt.Sscanf(string(d), "%f", &l1)
	f := int(l1/float64(runtime.NumCPU()) + 0.5)
	if f < 1 {
		f = 1
	}
	if f > 6 {
		f = 6
	}
	return f
}
