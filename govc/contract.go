package main

// Contract files (DESIGN §2.2/2.3): comment-only Go files whose `//@` lines carry contracts.

import (
	"fmt"
	"os"
	"path/filepath"
	"strings"
	"unicode"
)

type Expr struct {
	Op   string // "id","num","str","call","sel","index","old","un","bin","forall","exists","result","slice"
	Name string // identifier, operator, field/method name
	Args []*Expr
	Vars []QVar
	Src  string
}

type QVar struct {
	Name string
	Type string
}

type Clause struct {
	Label string
	BodyOnly bool // proved of the body, not offered to callers ("ensures-body": a fact that holds only inside the model the body is verified in)
	E     *Expr
	Src   string
	Line  int
	File  string
}

type LoopSpec struct {
	Key  string
	Invs []Clause
	Used bool
}

type SiteAssert struct {
	Callee string // substring of callee name
	Ord    int    // -1 = every matching site
	When   string // "before"
	Cl     Clause
	Used   bool
}

type Contract struct {
	Kind     string // func | iface | dep
	Name     string // as written
	Key      string // canonical key
	Pkg      string // package path of the file
	File     string
	Line     int
	Mode     string
	Safety   string
	Requires []Clause
	Ensures  []Clause
	MustFail []Clause
	Modifies []string
	ModAll   bool
	Pure     bool
	Loops    []*LoopSpec
	Sites    []*SiteAssert
	Params   []string // names for iface/dep contracts (optional override)
	Props    []string
	Inline   bool // never use this contract at call sites: inline instead
	Assumes  []Clause
	Interferes   []string // cells another goroutine may change at any time (havocked at call sites before the contract applies)
	Rely         []Clause // what that interference respects: old(...) is the state before it, plain names the state after
	EntryAssumes []Clause // assumed at entry when the body is verified; NOT an obligation at call sites (modelling conventions)
	NoBody   bool // contract is assumed, body not verified (trusted)
	Reads    []string
	ObjInv   []Clause
	invIdx   []int
}

type Pred struct {
	Name   string
	Params []QVar
	Body   *Expr
	Pkg    string
	File   string
	Line   int
}

type ContractSet struct {
	Preds map[string]*Pred
	ByKey map[string]*Contract
	All   []*Contract
	ModSets     map[string][]string
	predClauses []*Clause
	predOf      []*Pred
	Pure  []string // patterns of pure (UF) functions
	Skip  []string // patterns of effect-free skipped functions (A-LOG)
	Files []string
}

func loadContracts(dirs []string, pkgPathOf func(dir string) string) (*ContractSet, error) {
	cs := &ContractSet{ByKey: map[string]*Contract{}, Preds: map[string]*Pred{}}
	for _, d := range dirs {
		files, _ := filepath.Glob(filepath.Join(d, "*contracts_verif.go"))
		more, _ := filepath.Glob(filepath.Join(d, "*.spec"))
		files = append(files, more...)
		for _, f := range files {
			if err := cs.parseFile(f, pkgPathOf(d)); err != nil {
				return nil, err
			}
			cs.Files = append(cs.Files, f)
		}
	}
	for i, c := range cs.predClauses {
		cs.predOf[i].Body = c.E
	}
	for _, c := range cs.All {
		var mods []string
		for _, m := range c.Modifies {
			if strings.HasPrefix(m, "@") {
				set, ok := cs.ModSets[m[1:]]
				if !ok {
					return nil, fmt.Errorf("%s:%d: unknown modset %s", c.File, c.Line, m)
				}
				mods = append(mods, set...)
			} else {
				mods = append(mods, m)
			}
		}
		c.Modifies = mods
		for _, i := range c.invIdx {
			cl := c.Requires[i]
			if cl.Label == "" {
				cl.Label = "inv"
			}
			c.Requires[i].Label = cl.Label
			c.Ensures = append(c.Ensures, cl)
		}
	}
	return cs, nil
}

func (cs *ContractSet) parseFile(file, pkg string) error {
	data, err := os.ReadFile(file)
	if err != nil {
		return err
	}
	var cur *Contract
	var curLoop *LoopSpec
	var lastClause *Clause
	var lastSrc *string
	flush := func() error {
		if lastClause != nil && lastSrc != nil {
			e, err := parseExpr(*lastSrc)
			if err != nil {
				return fmt.Errorf("%s:%d: %v in %q", file, lastClause.Line, err, *lastSrc)
			}
			lastClause.E = e
			lastClause.Src = strings.TrimSpace(*lastSrc)
		}
		lastClause, lastSrc = nil, nil
		return nil
	}
	lines := strings.Split(string(data), "\n")
	for ln, raw := range lines {
		l := strings.TrimSpace(raw)
		if !strings.HasPrefix(l, "//@") {
			continue
		}
		l = strings.TrimSpace(l[3:])
		if l == "" || strings.HasPrefix(l, "#") {
			continue
		}
		if strings.HasPrefix(l, "|") { // continuation
			if lastSrc != nil {
				*lastSrc += " " + strings.TrimSpace(l[1:])
			}
			continue
		}
		if err := flush(); err != nil {
			return err
		}
		kw, rest := splitWord(l)
		newClause := func(list *[]Clause) {
			label, r := takeLabel(rest)
			*list = append(*list, Clause{Label: label, Line: ln + 1, File: file})
			lastClause = &(*list)[len(*list)-1]
			s := r
			lastSrc = &s
		}
		switch kw {
		case "func", "iface", "dep":
			cur = &Contract{Kind: kw, Name: rest, Pkg: pkg, File: file, Line: ln + 1}
			cur.NoBody = kw != "func"
			cur.Key = canonKey(kw, rest, pkg)
			if old, ok := cs.ByKey[cur.Key]; ok {
				return fmt.Errorf("%s:%d: duplicate contract for %s (also %s:%d)", file, ln+1, cur.Key, old.File, old.Line)
			}
			cs.ByKey[cur.Key] = cur
			cs.All = append(cs.All, cur)
			curLoop = nil
		case "pred":
			// pred Name(a T, b *pkg.U) = expr   (a macro, expanded at each use; expr may continue on `|` lines)
			eqi := strings.Index(rest, "=")
			lp, rp := strings.Index(rest, "("), strings.Index(rest, ")")
			if eqi < 0 || lp < 0 || rp < lp || rp > eqi {
				return fmt.Errorf("%s:%d: malformed pred", file, ln+1)
			}
			pr := &Pred{Name: strings.TrimSpace(rest[:lp]), Pkg: pkg, File: file, Line: ln + 1}
			for _, ps := range strings.Split(rest[lp+1:rp], ",") {
				fs := strings.Fields(ps)
				if len(fs) == 2 {
					pr.Params = append(pr.Params, QVar{fs[0], fs[1]})
				} else if len(fs) == 1 {
					pr.Params = append(pr.Params, QVar{fs[0], "int"})
				}
			}
			cs.Preds[pr.Name] = pr
			cur = nil
			predClause := &Clause{Line: ln + 1, File: file}
			cs.predClauses = append(cs.predClauses, predClause)
			cs.predOf = append(cs.predOf, pr)
			lastClause = predClause
			body := strings.TrimSpace(rest[eqi+1:])
			lastSrc = &body
		case "modset":
			// modset NAME = cell, cell, ...   (named list usable as `modifies @NAME`)
			if eqi := strings.Index(rest, "="); eqi > 0 {
				name := strings.TrimSpace(rest[:eqi])
				var items []string
				for _, m := range strings.Split(rest[eqi+1:], ",") {
					if m = strings.TrimSpace(m); m != "" {
						items = append(items, m)
					}
				}
				if cs.ModSets == nil {
					cs.ModSets = map[string][]string{}
				}
				cs.ModSets[name] = items
			}
		case "purefuncs":
			cs.Pure = append(cs.Pure, strings.Fields(rest)...)
		case "skipfuncs":
			cs.Skip = append(cs.Skip, strings.Fields(rest)...)
		default:
			if cur == nil {
				return fmt.Errorf("%s:%d: clause outside a contract: %s", file, ln+1, l)
			}
			switch kw {
			case "mode":
				cur.Mode = rest
			case "safety":
				cur.Safety = rest
			case "props":
				cur.Props = strings.Fields(strings.ReplaceAll(rest, ",", " "))
			case "params":
				cur.Params = strings.Fields(strings.ReplaceAll(rest, ",", " "))
			case "pure":
				cur.Pure = true
			case "inline":
				cur.Inline = true
			case "trusted":
				cur.NoBody = true
			case "modifies":
				for _, m := range strings.Split(rest, ",") {
					m = strings.TrimSpace(m)
					if m == "*" {
						cur.ModAll = true
					} else if m != "" {
						cur.Modifies = append(cur.Modifies, m)
					}
				}
			case "reads":
				for _, m := range strings.Split(rest, ",") {
					if m = strings.TrimSpace(m); m != "" {
						cur.Reads = append(cur.Reads, m)
					}
				}
			case "requires":
				curLoop = nil
				newClause(&cur.Requires)
			case "inv":
				// invariant carried by the function: required at entry and ensured at exit (same clause, both sides)
				curLoop = nil
				newClause(&cur.Requires)
				cur.invIdx = append(cur.invIdx, len(cur.Requires)-1)
			case "objinv":
				// object invariant of the receiver's type: assumed at entry, proved at exit, assumed after calls;
				// not an obligation at call sites (only the type's own methods write the fields it mentions)
				curLoop = nil
				newClause(&cur.ObjInv)
			case "ensures":
				curLoop = nil
				newClause(&cur.Ensures)
			case "ensures-body":
				curLoop = nil
				newClause(&cur.Ensures)
				lastClause.BodyOnly = true
			case "assume":
				curLoop = nil
				newClause(&cur.Assumes)
			case "entry-assume":
				curLoop = nil
				newClause(&cur.EntryAssumes)
			case "interferes":
				for _, m := range strings.Split(rest, ",") {
					if m = strings.TrimSpace(m); m != "" {
						cur.Interferes = append(cur.Interferes, m)
					}
				}
			case "rely":
				curLoop = nil
				newClause(&cur.Rely)
			case "must_fail":
				curLoop = nil
				newClause(&cur.MustFail)
			case "loop":
				curLoop = &LoopSpec{Key: rest}
				cur.Loops = append(cur.Loops, curLoop)
			case "invariant":
				if curLoop == nil {
					return fmt.Errorf("%s:%d: invariant outside loop", file, ln+1)
				}
				newClause(&curLoop.Invs)
			case "assert":
				// assert before call <callee>[#k] [label] expr
				w1, r1 := splitWord(rest)
				w2, r2 := splitWord(r1)
				if w1 != "before" || w2 != "call" {
					return fmt.Errorf("%s:%d: expected 'assert before call <callee>'", file, ln+1)
				}
				callee, r3 := splitWord(r2)
				ord := -1
				if i := strings.LastIndex(callee, "#"); i >= 0 {
					fmt.Sscanf(callee[i+1:], "%d", &ord)
					callee = callee[:i]
				}
				sa := &SiteAssert{Callee: callee, Ord: ord, When: "before"}
				label, r := takeLabel(r3)
				sa.Cl = Clause{Label: label, Line: ln + 1, File: file}
				cur.Sites = append(cur.Sites, sa)
				lastClause = &sa.Cl
				s := r
				lastSrc = &s
			default:
				return fmt.Errorf("%s:%d: unknown clause %q", file, ln+1, kw)
			}
		}
	}
	return flush()
}

func splitWord(s string) (string, string) {
	s = strings.TrimSpace(s)
	i := strings.IndexFunc(s, unicode.IsSpace)
	if i < 0 {
		return s, ""
	}
	return s[:i], strings.TrimSpace(s[i:])
}

func takeLabel(s string) (string, string) {
	s = strings.TrimSpace(s)
	if strings.HasPrefix(s, "[") {
		if i := strings.Index(s, "]"); i > 0 {
			return s[1:i], strings.TrimSpace(s[i+1:])
		}
	}
	return "", s
}

// canonKey: func F -> pkg.F ; func (*T).M -> (*pkg.T).M ; iface p.T.M -> iface:<fullpkg>.T.M (pkg alias resolved later)
func canonKey(kind, name, pkg string) string {
	name = strings.TrimSpace(name)
	if i := strings.Index(name, " "); i > 0 {
		name = name[:i]
	}
	switch kind {
	case "func":
		if strings.HasPrefix(name, "(") {
			j := strings.Index(name, ")")
			recv := name[1:j]
			m := name[j+2:]
			if strings.HasPrefix(recv, "*") {
				return "(*" + pkg + "." + recv[1:] + ")." + m
			}
			return "(" + pkg + "." + recv + ")." + m
		}
		return pkg + "." + name
	default:
		return kind + ":" + name
	}
}

// ---------- expression parser ----------

type lexer struct {
	toks []string
	pos  int
}

func lexExpr(s string) ([]string, error) {
	var toks []string
	i := 0
	for i < len(s) {
		c := s[i]
		switch {
		case c == ' ' || c == '\t':
			i++
		case unicode.IsLetter(rune(c)) || c == '_' || c == '$':
			j := i
			for j < len(s) && (unicode.IsLetter(rune(s[j])) || unicode.IsDigit(rune(s[j])) || s[j] == '_' || s[j] == '$') {
				j++
			}
			toks = append(toks, s[i:j])
			i = j
		case unicode.IsDigit(rune(c)):
			j := i
			for j < len(s) && (unicode.IsDigit(rune(s[j])) || s[j] == 'x' || (s[j] >= 'a' && s[j] <= 'f')) {
				j++
			}
			if j+1 < len(s) && s[j] == '.' && unicode.IsDigit(rune(s[j+1])) { // float literal
				j++
				for j < len(s) && unicode.IsDigit(rune(s[j])) {
					j++
				}
			}
			toks = append(toks, s[i:j])
			i = j
		case c == '"':
			j := i + 1
			for j < len(s) && s[j] != '"' {
				j++
			}
			toks = append(toks, s[i:j+1])
			i = j + 1
		default:
			three := ""
			if i+3 <= len(s) {
				three = s[i : i+3]
			}
			two := ""
			if i+2 <= len(s) {
				two = s[i : i+2]
			}
			switch {
			case three == "==>" || three == "<==":
				toks = append(toks, three)
				i += 3
			case two == "==" || two == "!=" || two == "<=" || two == ">=" || two == "&&" || two == "||" || two == "::" || two == "<<" || two == ">>":
				toks = append(toks, two)
				i += 2
			case strings.ContainsRune("()[]{}.,+-*/%<>!^:#", rune(c)):
				toks = append(toks, string(c))
				i++
			default:
				return nil, fmt.Errorf("bad character %q", c)
			}
		}
	}
	return toks, nil
}

func parseExpr(s string) (*Expr, error) {
	toks, err := lexExpr(s)
	if err != nil {
		return nil, err
	}
	lx := &lexer{toks: toks}
	e, err := lx.expr()
	if err != nil {
		return nil, err
	}
	if lx.pos < len(lx.toks) {
		return nil, fmt.Errorf("trailing tokens at %q", strings.Join(lx.toks[lx.pos:], " "))
	}
	e.Src = s
	return e, nil
}

func (l *lexer) peek() string {
	if l.pos < len(l.toks) {
		return l.toks[l.pos]
	}
	return ""
}
func (l *lexer) next() string { t := l.peek(); l.pos++; return t }
func (l *lexer) expect(t string) error {
	if l.peek() != t {
		return fmt.Errorf("expected %q got %q", t, l.peek())
	}
	l.pos++
	return nil
}

func (l *lexer) expr() (*Expr, error) {
	if t := l.peek(); t == "forall" || t == "exists" {
		l.next()
		var vars []QVar
		for {
			name := l.next()
			typ := "int"
			if p := l.peek(); p != "," && p != "::" {
				prefix := ""
				for l.peek() == "[" || l.peek() == "*" {
					if l.next() == "[" {
						l.next() // "]"
						prefix += "[]"
					} else {
						prefix += "*"
					}
				}
				typ = prefix + l.next()
				for l.peek() == "." {
					l.next()
					typ += "." + l.next()
				}
			}
			vars = append(vars, QVar{name, typ})
			if l.peek() == "," {
				l.next()
				continue
			}
			break
		}
		if err := l.expect("::"); err != nil {
			return nil, err
		}
		body, err := l.expr()
		if err != nil {
			return nil, err
		}
		return &Expr{Op: t, Vars: vars, Args: []*Expr{body}}, nil
	}
	return l.impl()
}

func (l *lexer) impl() (*Expr, error) {
	a, err := l.binary(0)
	if err != nil {
		return nil, err
	}
	if l.peek() == "==>" {
		l.next()
		b, err := l.expr()
		if err != nil {
			return nil, err
		}
		return &Expr{Op: "bin", Name: "==>", Args: []*Expr{a, b}}, nil
	}
	return a, nil
}

var precs = []map[string]bool{
	{"||": true},
	{"&&": true},
	{"==": true, "!=": true, "<": true, "<=": true, ">": true, ">=": true},
	{"+": true, "-": true},
	{"*": true, "/": true, "%": true, "<<": true, ">>": true},
}

func (l *lexer) binary(level int) (*Expr, error) {
	if level >= len(precs) {
		return l.unary()
	}
	a, err := l.binary(level + 1)
	if err != nil {
		return nil, err
	}
	for precs[level][l.peek()] {
		op := l.next()
		var b *Expr
		if level <= 1 {
			// allow quantifiers on the right of && / ||
			if t := l.peek(); t == "forall" || t == "exists" {
				b, err = l.expr()
			} else {
				b, err = l.binary(level + 1)
			}
		} else {
			b, err = l.binary(level + 1)
		}
		if err != nil {
			return nil, err
		}
		a = &Expr{Op: "bin", Name: op, Args: []*Expr{a, b}}
	}
	return a, nil
}

func (l *lexer) unary() (*Expr, error) {
	if t := l.peek(); t == "!" || t == "-" || t == "*" {
		l.next()
		a, err := l.unary()
		if err != nil {
			return nil, err
		}
		return &Expr{Op: "un", Name: t, Args: []*Expr{a}}, nil
	}
	return l.postfix()
}

func (l *lexer) postfix() (*Expr, error) {
	a, err := l.primary()
	if err != nil {
		return nil, err
	}
	for {
		switch l.peek() {
		case ".":
			l.next()
			name := l.next()
			if l.peek() == "(" {
				args, err := l.args()
				if err != nil {
					return nil, err
				}
				a = &Expr{Op: "mcall", Name: name, Args: append([]*Expr{a}, args...)}
			} else {
				a = &Expr{Op: "sel", Name: name, Args: []*Expr{a}}
			}
		case "[":
			l.next()
			var lo, hi *Expr
			if l.peek() != ":" {
				lo, err = l.expr()
				if err != nil {
					return nil, err
				}
			}
			if l.peek() == ":" {
				l.next()
				if l.peek() != "]" {
					hi, err = l.expr()
					if err != nil {
						return nil, err
					}
				}
				if err := l.expect("]"); err != nil {
					return nil, err
				}
				a = &Expr{Op: "slice", Args: []*Expr{a, lo, hi}}
			} else {
				if err := l.expect("]"); err != nil {
					return nil, err
				}
				a = &Expr{Op: "index", Args: []*Expr{a, lo}}
			}
		case "^":
			// power of literals only: 2^64
			l.next()
			b, err := l.primary()
			if err != nil {
				return nil, err
			}
			a = &Expr{Op: "pow", Args: []*Expr{a, b}}
		default:
			return a, nil
		}
	}
}

func (l *lexer) args() ([]*Expr, error) {
	if err := l.expect("("); err != nil {
		return nil, err
	}
	var args []*Expr
	for l.peek() != ")" {
		e, err := l.expr()
		if err != nil {
			return nil, err
		}
		args = append(args, e)
		if l.peek() == "," {
			l.next()
		} else if l.peek() != ")" {
			return nil, fmt.Errorf("expected , or ) got %q", l.peek())
		}
	}
	l.next()
	return args, nil
}

func (l *lexer) primary() (*Expr, error) {
	t := l.next()
	switch {
	case t == "":
		return nil, fmt.Errorf("unexpected end of expression")
	case t == "(":
		e, err := l.expr()
		if err != nil {
			return nil, err
		}
		if err := l.expect(")"); err != nil {
			return nil, err
		}
		return e, nil
	case t == "old":
		args, err := l.args()
		if err != nil || len(args) != 1 {
			return nil, fmt.Errorf("old(e) expects one argument")
		}
		return &Expr{Op: "old", Args: args}, nil
	case unicode.IsDigit(rune(t[0])):
		if strings.Contains(t, ".") {
			return &Expr{Op: "fnum", Name: t}, nil
		}
		return &Expr{Op: "num", Name: t}, nil
	case t[0] == '"':
		return &Expr{Op: "str", Name: t[1 : len(t)-1]}, nil
	case unicode.IsLetter(rune(t[0])) || t[0] == '_' || t[0] == '$':
		if l.peek() == "(" {
			args, err := l.args()
			if err != nil {
				return nil, err
			}
			return &Expr{Op: "call", Name: t, Args: args}, nil
		}
		if l.peek() == "#" { // name#k disambiguates shadowed locals
			l.next()
			t = t + "#" + l.next()
		}
		return &Expr{Op: "id", Name: t}, nil
	}
	return nil, fmt.Errorf("unexpected token %q", t)
}
