package main

// Verification-condition generation over naive-form go/ssa (DESIGN §2.1, §2.4-2.8).

import (
	"fmt"
	"go/constant"
	"go/token"
	"go/types"
	"math/big"
	"strings"

	"golang.org/x/tools/go/ssa"
)

// ---------- engine values ----------

type EV interface{}

type Val struct {
	t  string
	s  Sort
	gt types.Type
}

type Tuple []EV

type selKind int

const (
	selField selKind = iota
	selIndex
)

type psel struct {
	kind  selKind
	field int
	idx   string
	st    *types.Struct // for field
	ssort Sort          // struct sort for field
	asort Sort          // array sort for index
}

// Ptr is an engine-level location: a root cell (plus a heap reference for heap roots) and a selector path.
type Ptr struct {
	root    string // cell key
	ref     string // non-empty: cell holds (Array Int X), location is select(cell, ref)
	rootT   types.Type
	path    []psel
	elemT   types.Type
	slcSrc  *Ptr // element of a slice value that was loaded from slcSrc
	slcVal  *Val
	slcIdx  string
	nilable string // term that must be non-zero for the location to exist ("" = always valid)
}

type Closure struct {
	fn       *ssa.Function
	bindings []EV
	id       Val
}

// ---------- VC context ----------

type Obligation struct {
	Label   string
	Kind    string // post | pre | inv-entry | inv-preserved | safety | site | lemma | must_fail | cover
	Fn      string
	Pos     string
	Goal    string
	Reach   string
	NAssert int
	Src     string
	Props   []string
	Res     SolverResult
	Verdict string
	vc      *VC
	Callee  string
	MustFail bool
	// Witnesses: ground instances of a quantified goal (e.g. the frame goal at the receiver and pointer parameters). They are
	// extra queries, not obligations: when the goal itself gets no answer and a witness is refuted (sat), the obligation is
	// refuted with that model.
	Witnesses []*Obligation
	// NotExcluded: a frame obligation (an undeclared write) for which a ground witness at the receiver / a pointer
	// parameter could not be discharged either: the write cannot be excluded from objects that existed at entry
	NotExcluded bool
}

type VC struct {
	sliceShortened string // position of a s[:k] on a slice (value model of slices has no aliasing)
	sliceShortenedFn, appendSeenFn *ssa.Function
	appendSeen     string // position of an append
	P        *Program
	S        *SortReg
	fn       *ssa.Function
	con      *Contract
	decls    []string
	declSet  map[string]bool
	asserts  []string
	obls     []*Obligation
	nfresh   int
	errs     []string
	used     map[string]bool // assumption ids
	inlined  map[string]bool
	cellSort map[string]Sort
	cellType map[string]types.Type
	allocs   []string // fresh refs so far
	callOrd  map[string]int
	ufDecl   map[string]bool
	topFrame *Frame
	gen      int
	assertSet map[string]bool
	quantDepth int
	quantVars  []string // names of the variables bound by the quantifiers being evaluated
	notes    []string
	softErr  *[]string // when set, errors are collected here instead of making the function UNDECIDED
	iterField map[string]string
	specMode bool // evaluating a contract expression: no obligations are generated
	ctxs     []string
	sortFacts []sortFact
}

type State struct {
	cells   map[string]string
	gen     int
	cellGen map[string]int // generation of not-yet-materialised cells that were havocked
}

func (s *State) clone() *State {
	n := &State{cells: make(map[string]string, len(s.cells)), gen: s.gen, cellGen: map[string]int{}}
	for k, v := range s.cells {
		n.cells[k] = v
	}
	for k, v := range s.cellGen {
		n.cellGen[k] = v
	}
	return n
}

func (s *State) genOf(key string) int {
	if g, ok := s.cellGen[key]; ok {
		return g
	}
	return s.gen
}

type retSite struct {
	reach string
	st    *State
	vals  []EV
	pos   token.Pos
}

type Frame struct {
	vc      *VC
	fn      *ssa.Function
	vals    map[ssa.Value]EV
	in      map[*ssa.BasicBlock]*State
	out     map[*ssa.BasicBlock]*State
	reach   map[*ssa.BasicBlock]string
	entry   *State
	prefix  string
	depth   int
	rets    []retSite
	defers  []*ssa.Defer
	loops   map[*ssa.BasicBlock]*loopInfo
	back    map[[2]int]bool
	con     *Contract
	localsByName map[string][]*ssa.Alloc
	curBlock *ssa.BasicBlock
	cur     *State
	curReach string
	panicked bool
	deadEnd  map[*ssa.BasicBlock]bool
	shortOrig map[*ssa.Slice]Val // value of x in a shortening x[:k] executed in this frame
}

type loopInfo struct {
	header  *ssa.BasicBlock
	blocks  map[*ssa.BasicBlock]bool
	latches []*ssa.BasicBlock
	spec    *LoopSpec
	idxCell string // rangeindex cell key
	kind    string
	rangeOf string
	iterVal ssa.Value
	ord     int
	modSet  map[string]bool
	frameKeys []string
	framePre  *State
	elemOnly  map[string]bool // local slice variables written only element-wise in the loop
}

// abstractf: a pure value expression outside the modelled subset is replaced by an arbitrary value of its sort (an
// over-approximation: what is proved stays proved; an obligation that needs the value fails like any other). Recorded in the
// evidence as ABSTRACTED:<what>; the function stays decidable.
func (vc *VC) abstractf(format string, a ...interface{}) {
	if vc.used != nil {
		vc.used["ABSTRACTED:"+fmt.Sprintf(format, a...)] = true
	}
}

func (vc *VC) errf(format string, a ...interface{}) {
	msg := fmt.Sprintf(format, a...)
	if vc.softErr != nil {
		*vc.softErr = append(*vc.softErr, msg)
		return
	}
	for _, e := range vc.errs {
		if e == msg {
			return
		}
	}
	vc.errs = append(vc.errs, msg)
}

func (vc *VC) fresh(base string, s Sort) string {
	vc.nfresh++
	name := fmt.Sprintf("|%s!%d|", strings.NewReplacer("|", "_", "\\", "_").Replace(base), vc.nfresh)
	vc.declare(name, s)
	return name
}

func (vc *VC) declare(name string, s Sort) {
	if vc.declSet[name] {
		return
	}
	vc.declSet[name] = true
	vc.decls = append(vc.decls, fmt.Sprintf("(declare-const %s %s)", name, s))
}

func (vc *VC) declareFun(name string, args []Sort, res Sort) {
	if vc.declSet[name] {
		return
	}
	vc.declSet[name] = true
	vc.decls = append(vc.decls, fmt.Sprintf("(declare-fun %s (%s) %s)", name, strings.Join(args, " "), res))
}

func (vc *VC) assume(t string) {
	if t == "true" || t == "" {
		return
	}
	if vc.quantDepth > 0 {
		// side facts about terms with bound variables cannot be asserted at top level; facts that mention none of the
		// variables bound at this point (definitions of fresh constants made while a Go function used in the contract is
		// inlined, well-typedness of ground terms) are ordinary top-level facts
		for _, qv := range vc.quantVars {
			if mentionsSym(t, qv) {
				return
			}
		}
	}
	if vc.assertSet == nil {
		vc.assertSet = map[string]bool{}
	}
	if vc.assertSet[t] {
		return
	}
	vc.assertSet[t] = true
	vc.asserts = append(vc.asserts, t)
}

// mentionsSym: sym occurs in the SMT text t as a whole symbol
func mentionsSym(t, sym string) bool {
	for i := 0; ; {
		j := strings.Index(t[i:], sym)
		if j < 0 {
			return false
		}
		j += i
		before := j == 0 || strings.ContainsRune(" ()", rune(t[j-1]))
		after := j+len(sym) == len(t) || strings.ContainsRune(" ()", rune(t[j+len(sym)]))
		if before && after {
			return true
		}
		i = j + 1
	}
}

func (vc *VC) sortOf(t types.Type) Sort { return vc.S.sortOf(t) }

func (vc *VC) freshVal(base string, t types.Type) Val {
	s := vc.sortOf(t)
	c := vc.fresh(base, s)
	vc.assume(vc.S.wellTyped(c, t, 0))
	return Val{c, s, t}
}

func (vc *VC) freshRef(base string, t types.Type) Val {
	c := vc.fresh(base, SInt)
	vc.assume(sx(">", c, "0"))
	// fresh w.r.t. earlier allocations and all pointer parameters of the top frame
	for _, a := range vc.allocs {
		vc.assume(sx("distinct", c, a))
	}
	if vc.topFrame != nil {
		for _, p := range vc.topFrame.fn.Params {
			if v, ok := vc.topFrame.vals[p].(Val); ok && v.s == SInt {
				if _, isP := p.Type().Underlying().(*types.Pointer); isP {
					vc.assume(sx("distinct", c, v.t))
				}
			}
		}
	}
	vc.allocs = append(vc.allocs, c)
	return Val{c, SInt, t}
}

const aliveSort = "(Array Int Bool)"

// newRef allocates a fresh reference: non-nil, not alive before, alive afterwards (ghost cell `alive`).
func (f *Frame) newRef(base string, t types.Type) Val {
	r := f.vc.freshRef(base, t)
	al := f.getCell(f.cur, "ghost:alive", aliveSort)
	f.vc.assume(not(sx("select", al, r.t)))
	f.setCell(f.cur, "ghost:alive", aliveSort, sx("store", al, r.t, "true"))
	return r
}

func isRefType(t types.Type) bool {
	if t == nil {
		return false
	}
	switch t.Underlying().(type) {
	case *types.Pointer, *types.Map, *types.Chan, *types.Signature:
		return true
	}
	return false
}

// assumeAlive: a reference obtained from the pre-existing world (parameter, heap, call result) is nil or alive.
func (f *Frame) assumeAlive(st *State, v Val) {
	if v.s != SInt || !isRefType(v.gt) || len(v.t) > 300 {
		return
	}
	al := f.getCell(st, "ghost:alive", aliveSort)
	f.vc.assume(or(eq(v.t, "0"), sx("select", al, v.t)))
}

func (vc *VC) addObl(f *Frame, kind, label, goal, src string, pos token.Pos) *Obligation {
	if vc.specMode {
		return &Obligation{}
	}
	o := &Obligation{Label: label, Kind: kind, Fn: vc.P.fnKey(vc.fn), Goal: goal, Reach: f.curReach, NAssert: len(vc.asserts), Src: src, vc: vc}
	if pos.IsValid() {
		p := vc.P.fset.Position(pos)
		o.Pos = fmt.Sprintf("%s:%d", strings.TrimPrefix(p.Filename, "/repo/"), p.Line)
	}
	vc.obls = append(vc.obls, o)
	return o
}

// ---------- state & cells ----------

func (vc *VC) cellInit(key string, s Sort, gen int) string {
	name := fmt.Sprintf("|%s@%d|", key, gen)
	vc.declare(name, s)
	vc.cellSort[key] = s
	return name
}

func (f *Frame) getCell(st *State, key string, s Sort) string {
	if v, ok := st.cells[key]; ok {
		return v
	}
	v := f.vc.cellInit(key, s, st.genOf(key))
	st.cells[key] = v
	f.vc.cellSort[key] = s
	return v
}

func (f *Frame) setCell(st *State, key string, s Sort, v string) {
	f.vc.cellSort[key] = s
	st.cells[key] = v
}

func (f *Frame) heapKey(named types.Type, field string) string {
	return "H:" + f.vc.S.typeName(named) + "." + field
}

// ---------- pointers ----------

func (f *Frame) structOfPtr(t types.Type) (*types.Struct, types.Type) {
	if p, ok := t.Underlying().(*types.Pointer); ok {
		if st, ok := p.Elem().Underlying().(*types.Struct); ok {
			return st, p.Elem()
		}
	}
	return nil, nil
}

// loadPtr reads the value at location p in state st.
func (f *Frame) loadPtr(st *State, p *Ptr) Val {
	vc := f.vc
	if p.slcSrc != nil {
		es := vc.sortOf(p.elemT)
		v := Val{sx("select", sx("el_"+p.slcVal.s, p.slcVal.t), p.slcIdx), es, p.elemT}
		return f.project(v, p.path, p.elemT)
	}
	rs := vc.cellSort[p.root]
	var v Val
	if p.ref != "" {
		es := vc.sortOf(p.rootT)
		arr := f.getCell(st, p.root, "(Array Int "+es+")")
		v = Val{sx("select", arr, p.ref), es, p.rootT}
	} else {
		if rs == "" {
			rs = vc.sortOf(p.rootT)
		}
		v = Val{f.getCell(st, p.root, rs), rs, p.rootT}
	}
	return f.project(v, p.path, p.elemT)
}

func (f *Frame) project(v Val, path []psel, finalT types.Type) Val {
	for _, s := range path {
		switch s.kind {
		case selField:
			ft := s.st.Field(s.field).Type()
			v = Val{sx(f.vc.S.fieldSel(s.ssort, s.st, s.field), v.t), f.vc.sortOf(ft), ft}
		case selIndex:
			var et types.Type
			if a, ok := v.gt.Underlying().(*types.Array); ok {
				et = a.Elem()
			}
			v = Val{sx("select", v.t, s.idx), f.vc.sortOf(et), et}
		}
	}
	if finalT != nil {
		v.gt = finalT
	}
	return v
}

func (f *Frame) updatePath(old Val, path []psel, nv string) string {
	if len(path) == 0 {
		return nv
	}
	s := path[0]
	switch s.kind {
	case selField:
		ft := s.st.Field(s.field).Type()
		sub := Val{sx(f.vc.S.fieldSel(s.ssort, s.st, s.field), old.t), f.vc.sortOf(ft), ft}
		inner := f.updatePath(sub, path[1:], nv)
		var args []string
		for i := 0; i < s.st.NumFields(); i++ {
			if i == s.field {
				args = append(args, inner)
			} else {
				args = append(args, sx(f.vc.S.fieldSel(s.ssort, s.st, i), old.t))
			}
		}
		return sx("mk_"+s.ssort, args...)
	case selIndex:
		var et types.Type
		if a, ok := old.gt.Underlying().(*types.Array); ok {
			et = a.Elem()
		}
		sub := Val{sx("select", old.t, s.idx), f.vc.sortOf(et), et}
		inner := f.updatePath(sub, path[1:], nv)
		return sx("store", old.t, s.idx, inner)
	}
	return nv
}

func (f *Frame) storePtr(st *State, p *Ptr, v Val) {
	vc := f.vc
	if p.slcSrc != nil {
		cur := f.loadPtr(st, p.slcSrc)
		if cur.t != p.slcVal.t {
			vc.errf("%s: element store through a slice value that is no longer the content of its variable", vc.P.fnKey(f.fn))
		}
		es := vc.sortOf(p.elemT)
		oldElem := Val{sx("select", sx("el_"+cur.s, cur.t), p.slcIdx), es, p.elemT}
		ne := f.updatePath(oldElem, p.path, v.t)
		ns := sx("mk_"+cur.s, sx("nil_"+cur.s, cur.t), sx("len_"+cur.s, cur.t), sx("store", sx("el_"+cur.s, cur.t), p.slcIdx, ne))
		f.storePtr(st, p.slcSrc, Val{ns, cur.s, cur.gt})
		return
	}
	if p.ref != "" {
		es := vc.sortOf(p.rootT)
		as := "(Array Int " + es + ")"
		arr := f.getCell(st, p.root, as)
		old := Val{sx("select", arr, p.ref), es, p.rootT}
		nv := f.updatePath(old, p.path, v.t)
		f.setCell(st, p.root, as, sx("store", arr, p.ref, nv))
		return
	}
	rs := vc.cellSort[p.root]
	if rs == "" {
		rs = vc.sortOf(p.rootT)
	}
	old := Val{f.getCell(st, p.root, rs), rs, p.rootT}
	f.setCell(st, p.root, rs, f.updatePath(old, p.path, v.t))
}

// loadStruct assembles a struct value from the per-field heaps of object ref.
func (f *Frame) loadStruct(st *State, ref string, named types.Type) Val {
	u := named.Underlying().(*types.Struct)
	s := f.vc.sortOf(named)
	if u.NumFields() == 0 {
		return Val{"mk_" + s, s, named}
	}
	var args []string
	for i := 0; i < u.NumFields(); i++ {
		fs := f.vc.sortOf(u.Field(i).Type())
		arr := f.getCell(st, f.heapKey(named, u.Field(i).Name()), "(Array Int "+fs+")")
		args = append(args, sx("select", arr, ref))
	}
	return Val{sx("mk_"+s, args...), s, named}
}

func (f *Frame) storeStruct(st *State, ref string, named types.Type, v Val) {
	u := named.Underlying().(*types.Struct)
	s := f.vc.sortOf(named)
	for i := 0; i < u.NumFields(); i++ {
		fs := f.vc.sortOf(u.Field(i).Type())
		key := f.heapKey(named, u.Field(i).Name())
		as := "(Array Int " + fs + ")"
		arr := f.getCell(st, key, as)
		f.setCell(st, key, as, sx("store", arr, ref, sx(f.vc.S.fieldSel(s, u, i), v.t)))
	}
}

// ---------- values ----------

func (f *Frame) constVal(c *ssa.Const) EV {
	vc := f.vc
	t := c.Type()
	if c.Value == nil { // zero value / nil
		if _, ok := t.Underlying().(*types.Tuple); ok {
			return Tuple{}
		}
		return Val{vc.S.zero(t), vc.sortOf(t), t}
	}
	switch c.Value.Kind() {
	case constant.Bool:
		if constant.BoolVal(c.Value) {
			return Val{"true", SBool, t}
		}
		return Val{"false", SBool, t}
	case constant.Int:
		if isFloat(t) {
			return f.floatConst(c)
		}
		if vc.S.bv && isInteger(t) {
			n, _ := new(bigInt).SetString(c.Value.ExactString(), 10)
			w, _, _ := bvWidth(t)
			return Val{bvLit(n, w), bvSort(w), t}
		}
		return Val{intLit(c.Value.ExactString()), SInt, t}
	case constant.String:
		return vc.strLit(constant.StringVal(c.Value), t)
	case constant.Float:
		return f.floatConst(c)
	}
	vc.errf("unsupported constant %v", c)
	return Val{"0", SInt, t}
}

func (vc *VC) strLit(s string, t types.Type) Val {
	if s == "" {
		return Val{"emptyStr", SStr, t}
	}
	name := fmt.Sprintf("|str:%q|", strings.NewReplacer("|", "!", "\\", "!").Replace(s))
	if len(name) > 60 {
		name = fmt.Sprintf("|str:%q..%d|", strings.NewReplacer("|", "!", "\\", "!", "\"", "'").Replace(s[:40]), len(s))
	}
	if !vc.declSet[name] {
		vc.declare(name, SStr)
		vc.assume(eq(sx("strlen", name), fmt.Sprint(len(s))))
	}
	return Val{name, SStr, t}
}

func (f *Frame) floatConst(c *ssa.Const) EV {
	fl, _ := constant.Float64Val(c.Value)
	return Val{fpLit(fl), SFP, c.Type()}
}

func (f *Frame) val(v ssa.Value) EV {
	switch x := v.(type) {
	case *ssa.Const:
		return f.constVal(x)
	case *ssa.Global:
		return &Ptr{root: "G:" + x.Pkg.Pkg.Name() + "." + x.Name(), rootT: x.Type().(*types.Pointer).Elem(), elemT: x.Type().(*types.Pointer).Elem()}
	case *ssa.Function:
		name := "|fn:" + f.vc.P.fnKey(x) + "|"
		f.vc.declare(name, SInt)
		f.vc.assume(sx("distinct", name, "0"))
		return Val{name, SInt, x.Type()}
	case *ssa.Builtin:
		return Val{"0", SInt, nil}
	}
	if ev, ok := f.vals[v]; ok {
		return ev
	}
	f.vc.errf("%s: value %s (%T) used before definition", f.vc.P.fnKey(f.fn), v.Name(), v)
	return Val{"0", SInt, v.Type()}
}

func (f *Frame) sval(v ssa.Value) Val {
	ev := f.val(v)
	switch x := ev.(type) {
	case Val:
		return x
	case *Closure:
		return x.id
	case *Ptr:
		// a pointer that must become a first-class value: only heap objects are representable
		if x.ref != "" && len(x.path) == 0 && x.slcSrc == nil && strings.HasPrefix(x.root, "D:") {
			return Val{x.ref, SInt, v.Type()}
		}
		f.vc.errf("%s: address of %s escapes into a value (unsupported)", f.vc.P.fnKey(f.fn), x.root)
		return Val{f.vc.fresh("escaped", SInt), SInt, v.Type()}
	}
	f.vc.errf("%s: non-scalar value used as scalar: %s", f.vc.P.fnKey(f.fn), v.Name())
	return Val{"0", SInt, v.Type()}
}

// asPtr turns an SSA value of pointer type into a location.
func (f *Frame) asPtr(v ssa.Value) *Ptr {
	ev := f.val(v)
	if p, ok := ev.(*Ptr); ok {
		return p
	}
	x := f.sval(v)
	pt, ok := v.Type().Underlying().(*types.Pointer)
	if !ok {
		f.vc.errf("asPtr on non-pointer %s", v.Type())
		return &Ptr{root: "L:bogus", rootT: types.Typ[types.Int], elemT: types.Typ[types.Int]}
	}
	et := pt.Elem()
	if _, isStruct := et.Underlying().(*types.Struct); isStruct {
		// whole-object pointer: loads/stores of the full struct are handled in load/store
		return &Ptr{root: "OBJ", ref: x.t, rootT: et, elemT: et, nilable: x.t}
	}
	return &Ptr{root: "D:" + f.vc.S.typeName(et), ref: x.t, rootT: et, elemT: et, nilable: x.t}
}

// ---------- integer arithmetic (mode int: mathematical integers with explicit wrap) ----------

func wrapTo(x string, t types.Type) string {
	lo, hi, ok := intRange(t)
	if !ok {
		return x
	}
	size := new(bigInt).Add(new(bigInt).Sub(hi, lo), bigOne)
	if lo.Sign() == 0 {
		return sx("mod", x, size.String())
	}
	return sx("-", sx("mod", sx("+", x, bigLit(new(bigInt).Neg(lo))), size.String()), bigLit(new(bigInt).Neg(lo)))
}

// wrap1: wrap-around of a sum or difference of two in-range values (at most one wrap): linear form.
func wrap1(x string, t types.Type) string {
	lo, hi, ok := intRange(t)
	if !ok {
		return x
	}
	size := new(bigInt).Add(new(bigInt).Sub(hi, lo), bigOne).String()
	return ite(sx(">", x, bigLit(hi)), sx("-", x, size), ite(sx("<", x, bigLit(lo)), sx("+", x, size), x))
}

func (f *Frame) binop(op token.Token, a, b Val, resT types.Type, pos token.Pos) Val {
	vc := f.vc
	rs := vc.sortOf(resT)
	if a.s == SFP || b.s == SFP {
		return f.fpBinop(op, a, b, resT)
	}
	if isBV(a.s) || isBV(b.s) {
		return f.bvBinop(op, a, b, resT, pos)
	}
	switch op {
	case token.ADD:
		if a.s == SStr {
			r := vc.fresh("concat", SStr)
			vc.declareFun("str_concat", []Sort{SStr, SStr}, SStr)
			vc.assume(eq(r, sx("str_concat", a.t, b.t)))
			vc.assume(eq(sx("strlen", r), sx("+", sx("strlen", a.t), sx("strlen", b.t))))
			return Val{r, SStr, resT}
		}
		return Val{wrap1(sx("+", a.t, b.t), resT), SInt, resT}
	case token.SUB:
		return Val{wrap1(sx("-", a.t, b.t), resT), SInt, resT}
	case token.MUL:
		return Val{wrapTo(sx("*", a.t, b.t), resT), SInt, resT}
	case token.QUO, token.REM:
		f.safety("div-by-zero", sx("distinct", b.t, "0"), pos)
		lo, _, _ := intRange(resT)
		var q, r string
		if lo != nil && lo.Sign() == 0 {
			q, r = sx("div", a.t, b.t), sx("mod", a.t, b.t)
		} else {
			// Go truncated division on signed integers
			absA, absB := sx("abs", a.t), sx("abs", b.t)
			qq := sx("div", absA, absB)
			q = ite(sx("=", sx(">=", a.t, "0"), sx(">=", b.t, "0")), qq, sx("-", qq))
			r = sx("-", a.t, sx("*", b.t, q))
		}
		if op == token.QUO {
			return Val{wrapTo(q, resT), SInt, resT}
		}
		return Val{r, SInt, resT}
	case token.EQL, token.NEQ:
		e := f.equal(a, b)
		if op == token.NEQ {
			e = not(e)
		}
		return Val{e, SBool, resT}
	case token.LSS, token.LEQ, token.GTR, token.GEQ:
		o := map[token.Token]string{token.LSS: "<", token.LEQ: "<=", token.GTR: ">", token.GEQ: ">="}[op]
		if a.s == SStr {
			vc.declareFun("str_lt", []Sort{SStr, SStr}, SBool)
			vc.abstractf("string ordering (uninterpreted order)")
			return Val{sx("str_lt", a.t, b.t), SBool, resT}
		}
		return Val{sx(o, a.t, b.t), SBool, resT}
	case token.SHL:
		if k, ok := constInt(b.t); ok && k < 64 {
			return Val{wrapTo(sx("*", a.t, pow2(uint(k)).String()), resT), SInt, resT}
		}
		vc.declareFun("pow2", []Sort{SInt}, SInt)
		vc.P.needSection["pow2"] = true
		return Val{wrapTo(sx("*", a.t, sx("pow2", b.t)), resT), SInt, resT}
	case token.SHR:
		if k, ok := constInt(b.t); ok && k < 64 {
			lo, _, _ := intRange(resT)
			if lo != nil && lo.Sign() == 0 {
				return Val{sx("div", a.t, pow2(uint(k)).String()), SInt, resT}
			}
		}
	case token.AND, token.OR, token.XOR, token.AND_NOT:
		// x & (2^k - 1) on a non-negative operand is x mod 2^k (mask with a constant)
		if op == token.AND && a.s == SInt && b.s == SInt {
			lo, _, _ := intRange(a.gt)
			for _, pr := range [][2]Val{{a, b}, {b, a}} {
				if m, ok := new(big.Int).SetString(pr[1].t, 10); ok && m.Sign() > 0 && lo != nil && lo.Sign() == 0 {
					m1 := new(big.Int).Add(m, big.NewInt(1))
					if m1.BitLen() > 1 && new(big.Int).And(m1, m).Sign() == 0 { // m + 1 is a power of two
						return Val{sx("mod", pr[0].t, m1.String()), SInt, resT}
					}
				}
			}
		}
		if a.s == SBool {
			switch op {
			case token.AND:
				return Val{and(a.t, b.t), SBool, resT}
			case token.OR:
				return Val{or(a.t, b.t), SBool, resT}
			}
		}
	}
	vc.abstractf("%s: binary operator %s on %s (mode int): arbitrary result", vc.P.fnKey(f.fn), op, rs)
	return Val{vc.fresh("unsupported", rs), rs, resT}
}

func constInt(t string) (int64, bool) {
	var k int64
	if _, err := fmt.Sscanf(t, "%d", &k); err == nil && fmt.Sprint(k) == t {
		return k, true
	}
	return 0, false
}

func (f *Frame) equal(a, b Val) string {
	switch {
	case a.s == SBS && b.s == SBS:
		// only comparison with nil is legal Go for slices
		if strings.HasSuffix(b.t, "true)") && strings.HasPrefix(b.t, "(mkBS emptyStr") {
			return sx("bs_nil", a.t)
		}
		if strings.HasSuffix(a.t, "true)") && strings.HasPrefix(a.t, "(mkBS emptyStr") {
			return sx("bs_nil", b.t)
		}
		return eq(a.t, b.t)
	case strings.HasPrefix(a.s, "Slice_"):
		if strings.HasPrefix(b.t, "(mk_"+b.s+" true 0 ") {
			return sx("nil_"+a.s, a.t)
		}
		if strings.HasPrefix(a.t, "(mk_"+a.s+" true 0 ") {
			return sx("nil_"+b.s, b.t)
		}
	case a.s == SIface && b.s == SIface:
		// interface equality: nil-ness is what the code compares
		if b.t == "(mkI 0 0)" {
			return eq(sx("i_typ", a.t), "0")
		}
		if a.t == "(mkI 0 0)" {
			return eq(sx("i_typ", b.t), "0")
		}
	}
	return eq(a.t, b.t)
}

func (f *Frame) convert(x Val, to types.Type) Val {
	vc := f.vc
	from := x.gt
	ts := vc.sortOf(to)
	if isBV(x.s) || isBV(ts) {
		return f.bvConvert(x, to)
	}
	switch {
	case x.s == SInt && ts == SInt:
		if isInteger(to) {
			if from != nil {
				flo, fhi, ok1 := intRange(from)
				tlo, thi, ok2 := intRange(to)
				if ok1 && ok2 && flo.Cmp(tlo) >= 0 && fhi.Cmp(thi) <= 0 {
					return Val{x.t, SInt, to}
				}
			}
			return Val{wrapTo(x.t, to), SInt, to}
		}
		return Val{x.t, SInt, to}
	case x.s == SBS && ts == SStr:
		return Val{sx("bs_c", x.t), SStr, to}
	case x.s == SStr && ts == SBS:
		return Val{sx("mkBS", x.t, "false"), SBS, to}
	case x.s == ts:
		return Val{x.t, ts, to}
	case x.s == SFP || ts == SFP:
		return f.fpConvert(x, to)
	}
	vc.abstractf("%s: conversion %s -> %s: arbitrary result", vc.P.fnKey(f.fn), x.s, ts)
	return Val{vc.fresh("conv", ts), ts, to}
}

// ---------- safety obligations ----------

func (f *Frame) safetyLevel() string {
	if f.vc.con != nil && f.vc.con.Safety != "" {
		return f.vc.con.Safety
	}
	return f.vc.P.defaultSafety
}

func (f *Frame) safety(kind, cond string, pos token.Pos) {
	lvl := f.safetyLevel()
	if lvl == "none" {
		return
	}
	if (kind == "nil-deref" && lvl != "all") || (kind == "nil-call" && lvl != "all" && lvl != "iface") {
		f.vc.used["A-NONNIL"] = true
		f.vc.assume(implies(f.curReach, cond))
		return
	}
	if cond == "true" {
		return
	}
	n := f.vc.callOrd["safety:"+kind]
	f.vc.callOrd["safety:"+kind] = n + 1
	label := fmt.Sprintf("safety.%s#%d", kind, n)
	o := f.vc.addObl(f, "safety", label, cond, kind, pos)
	_ = o
	// after the check the condition holds on the continuing path
	f.vc.assume(implies(f.curReach, cond))
}
