package main

// Hard-wired models of standard-library and primitive-type functions (each is a named assumption).

import (
	"fmt"
	"go/token"
	"go/types"
	"math/big"
	"strings"

	"golang.org/x/tools/go/ssa"
)

var modelKeys = []string{
	"(*protocol.*).*Iterator", "(*protocol.*Iterator).HasNext", "(*protocol.*Iterator).Next*",
	"(primitives.*).Equal", "(primitives.*).String", "(primitives.*).KeyForMap",
	"bytes.Equal", "errors.New", "errors.Errorf", "fmt.Errorf", "errors.Wrap", "errors.Wrapf", "errors.Cause", "errors.Unwrap", "errors.WithStack", "errors.WithMessage", "errors.Is",
	"fmt.Sprintf", "fmt.Sprint", "iface:error.Error", "strings.Join",
	"iface:context.Context.Err", "iface:context.Context.Done", "context.WithCancel", "context.WithTimeout", "context.WithDeadline", "context.WithoutCancel", "context.WithValue", "context.Background", "context.TODO",
	"sort.Slice", "math.Floor", "math.IsNaN", "math.IsInf", "math.Pow", "math.Ceil", "math.Trunc", "math.Round", "math.Abs", "math.Sqrt", "math.Max", "math.Min", "math.Log2", "math.Exp2", "math.Ldexp", "time.AfterFunc", "(*time.Timer).Stop", "(time.Duration).Nanoseconds",
	"runtime.NumGoroutine", "time.Now", "(time.Time).Sub",
	"atomic.Load*", "atomic.Store*", "atomic.Swap*", "atomic.Add*", "atomic.CompareAndSwap*",
}

func (P *Program) hasModel(key string) bool { return matchAny(modelKeys, key) }

func nonNilErr(vc *VC, base string, t types.Type) Val {
	c := vc.fresh(base, SIface)
	vc.assume(sx("distinct", sx("i_typ", c), "0"))
	return Val{c, SIface, t}
}

// modelCall: models that are pure functions of scalar arguments (usable inside contract expressions).
func (f *Frame) modelCall(key string, sig *types.Signature, args []Val, st *State, specOnly bool) (EV, bool) {
	vc := f.vc
	resT := func(i int) types.Type {
		if sig != nil && sig.Results().Len() > i {
			return sig.Results().At(i).Type()
		}
		return nil
	}
	switch {
	case matchAny([]string{"(primitives.*).Equal"}, key):
		a, b := args[0], args[1]
		vc.used["A-PRIM"] = true
		if a.s == SBS {
			return Val{eq(sx("bs_c", a.t), sx("bs_c", b.t)), SBool, types.Typ[types.Bool]}, true
		}
		return Val{eq(a.t, b.t), SBool, types.Typ[types.Bool]}, true
	case key == "bytes.Equal":
		return Val{eq(sx("bs_c", args[0].t), sx("bs_c", args[1].t)), SBool, types.Typ[types.Bool]}, true
	case matchAny([]string{"(primitives.*).String"}, key):
		a := args[0]
		vc.used["A-HEX"] = true
		if a.s == SBS {
			return Val{sx("hex", sx("bs_c", a.t)), SStr, types.Typ[types.String]}, true
		}
		vc.declareFun("int_str", []Sort{SInt}, SStr)
		return Val{sx("int_str", a.t), SStr, types.Typ[types.String]}, true
	case matchAny([]string{"(primitives.*).KeyForMap"}, key):
		a := args[0]
		if a.s == SBS {
			return Val{sx("bs_c", a.t), SStr, types.Typ[types.String]}, true
		}
		vc.declareFun("int_str", []Sort{SInt}, SStr)
		return Val{sx("int_str", a.t), SStr, types.Typ[types.String]}, true
	case key == "(time.Duration).Nanoseconds":
		return Val{args[0].t, SInt, resT(0)}, true
	case key == "math.Floor":
		vc.used["T-FP"] = true
		return Val{sx("fp.roundToIntegral", "RTN", args[0].t), SFP, resT(0)}, true
	case key == "math.Ceil":
		vc.used["T-FP"] = true
		return Val{sx("fp.roundToIntegral", "RTP", args[0].t), SFP, resT(0)}, true
	case key == "math.Trunc":
		vc.used["T-FP"] = true
		return Val{sx("fp.roundToIntegral", "RTZ", args[0].t), SFP, resT(0)}, true
	case key == "math.Round":
		vc.used["T-FP"] = true
		return Val{sx("fp.roundToIntegral", "RNA", args[0].t), SFP, resT(0)}, true
	case key == "math.Abs":
		vc.used["T-FP"] = true
		return Val{sx("fp.abs", args[0].t), SFP, resT(0)}, true
	case key == "math.Sqrt":
		vc.used["T-FP"] = true
		return Val{sx("fp.sqrt", "RNE", args[0].t), SFP, resT(0)}, true
	case key == "math.Max":
		vc.used["T-FP"] = true
		return Val{sx("fp.max", args[0].t, args[1].t), SFP, resT(0)}, true
	case key == "math.Min":
		vc.used["T-FP"] = true
		return Val{sx("fp.min", args[0].t, args[1].t), SFP, resT(0)}, true
	case key == "math.Exp2":
		vc.used["A-POW"] = true
		vc.P.needSym["pow2fp"] = true
		return Val{sx("pow2fp", args[0].t), SFP, resT(0)}, true
	case key == "math.Log2", key == "math.Ldexp":
		// no exact model: an unconstrained function of the arguments (sound over-approximation)
		name := "uf_" + strings.ReplaceAll(key, ".", "_")
		var as []Sort
		var ts []string
		for _, a := range args {
			as = append(as, a.s)
			ts = append(ts, a.t)
		}
		vc.declareFun(name, as, SFP)
		return Val{sx(name, ts...), SFP, resT(0)}, true
	case key == "math.IsNaN":
		return Val{sx("fp.isNaN", args[0].t), SBool, types.Typ[types.Bool]}, true
	case key == "math.IsInf":
		// IsInf(f, sign): sign > 0 => +Inf, sign < 0 => -Inf, sign == 0 => either
		pos := and(sx("fp.isInfinite", args[0].t), sx("fp.isPositive", args[0].t))
		neg := and(sx("fp.isInfinite", args[0].t), sx("fp.isNegative", args[0].t))
		sg := args[1].t
		zero := "0"
		if strings.HasPrefix(args[1].s, "(_ BitVec") {
			zero = bvLit(big.NewInt(0), 64)
			return Val{or(and(sx("bvsge", sg, zero), pos), and(sx("bvsle", sg, zero), neg)), SBool, types.Typ[types.Bool]}, true
		}
		return Val{or(and(sx(">=", sg, zero), pos), and(sx("<=", sg, zero), neg)), SBool, types.Typ[types.Bool]}, true
	case key == "math.Pow":
		// A-POW: math.Pow(2, k) for integral k in [0,1023] is exactly 2^k, +Inf above; other arguments unconstrained.
		vc.used["A-POW"] = true
		vc.P.needSym["pow2fp"] = true
		vc.declareFun("math_pow", []Sort{SFP, SFP}, SFP)
		app := sx("math_pow", args[0].t, args[1].t)
		vc.assume(implies(sx("fp.eq", args[0].t, fpLit(2)), eq(app, sx("pow2fp", args[1].t))))
		// and for every base >= 1 and exponent >= 0 the power is at least 1 (possibly +Inf)
		vc.assume(implies(and(sx("fp.geq", args[0].t, fpLit(1)), sx("fp.geq", args[1].t, fpLit(0))), sx("fp.geq", app, fpLit(1))))
		return Val{app, SFP, resT(0)}, true
	}
	return nil, false
}

// modelCallFull: all models, including effectful / nondeterministic ones.
func (f *Frame) modelCallFull(key string, sig *types.Signature, vals []Val, args []EV, c *ssa.CallCommon, pos token.Pos) (EV, bool) {
	vc := f.vc
	if r, ok := f.modelCall(key, sig, vals, f.cur, false); ok {
		return r, true
	}
	resT := func(i int) types.Type { return sig.Results().At(i).Type() }
	// A-ITER: a membuffers iterator enumerates the fixed finite sequence seq_at:<Field>(message, 0..seq_len:<Field>(message)-1)
	if strings.HasPrefix(key, "(*protocol.") && c != nil && c.StaticCallee() != nil {
		name := c.StaticCallee().Name()
		recvT := ""
		if r := sig.Recv(); r != nil {
			recvT = vc.S.typeName(r.Type())
		}
		switch {
		case strings.HasSuffix(name, "Iterator") && len(vals) == 1:
			vc.used["A-ITER"] = true
			field := strings.TrimSuffix(name, "Iterator")
			it := f.newRef("iter:"+field, resT(0))
			vc.declareFun("iter_src", []Sort{SInt}, SInt)
			vc.assume(eq(sx("iter_src", it.t), vals[0].t))
			pos := f.getCell(f.cur, "ghost:iterpos", "(Array Int Int)")
			f.setCell(f.cur, "ghost:iterpos", "(Array Int Int)", sx("store", pos, it.t, "0"))
			vc.iterField[it.t] = field
			return it, true
		case strings.HasSuffix(recvT, "Iterator") && (name == "HasNext" || strings.HasPrefix(name, "Next")):
			vc.used["A-ITER"] = true
			field := iterFieldOfType(recvT)
			it := vals[0]
			lenF, atF := "|seq_len:"+field+"|", "|seq_at:"+field+"|"
			vc.declareFun(lenF, []Sort{SInt}, SInt)
			vc.declareFun(atF, []Sort{SInt, SInt}, SInt)
			vc.declareFun("iter_src", []Sort{SInt}, SInt)
			src := sx("iter_src", it.t)
			n := sx(lenF, src)
			vc.assume(and(sx("<=", "0", n), sx("<=", n, "9223372036854775807")))
			pos := f.getCell(f.cur, "ghost:iterpos", "(Array Int Int)")
			cur := sx("select", pos, it.t)
			if name == "HasNext" {
				return Val{sx("<", cur, n), SBool, types.Typ[types.Bool]}, true
			}
			f.safety("iter-next", sx("<", cur, n), pos0(pos, c))
			el := vc.fresh("iterelem", SInt)
			vc.assume(eq(el, sx(atF, src, cur)))
			vc.assume(sx("distinct", el, "0"))
			r := Val{el, SInt, resT(0)}
			f.assumeAlive(f.cur, r)
			f.setCell(f.cur, "ghost:iterpos", "(Array Int Int)", sx("store", pos, it.t, sx("+", cur, "1")))
			return r, true
		}
	}
	switch key {
	case "errors.New", "errors.Errorf", "fmt.Errorf":
		vc.used["A-LOG"] = true
		return nonNilErr(vc, "err", resT(0)), true
	case "errors.Wrap", "errors.Wrapf":
		vc.used["A-LOG"] = true
		e := vals[0]
		c := vc.fresh("wrapped", SIface)
		vc.assume(eq(eq(sx("i_typ", c), "0"), eq(sx("i_typ", e.t), "0")))
		return Val{c, SIface, resT(0)}, true
	case "errors.Cause", "errors.WithStack", "errors.WithMessage":
		// an error derived from another one: nil exactly when the argument is nil, otherwise some error value
		vc.used["A-LOG"] = true
		e := vals[0]
		c := vc.fresh("cause", SIface)
		vc.assume(eq(eq(sx("i_typ", c), "0"), eq(sx("i_typ", e.t), "0")))
		return Val{c, SIface, resT(0)}, true
	case "errors.Unwrap":
		vc.used["A-LOG"] = true
		return Val{vc.fresh("unwrapped", SIface), SIface, resT(0)}, true
	case "errors.Is":
		vc.used["A-LOG"] = true
		return vc.freshVal("is", types.Typ[types.Bool]), true
	case "fmt.Sprintf", "fmt.Sprint", "iface:error.Error", "strings.Join":
		vc.used["A-LOG"] = true
		return vc.freshVal("str", types.Typ[types.String]), true
	case "hex.EncodeToString":
		// two hexadecimal digits per byte; the digits themselves are not modelled
		r := vc.freshVal("hex", types.Typ[types.String])
		if len(vals) == 1 && vals[0].s == SBS {
			vc.assume(eq(sx("strlen", r.t), sx("*", "2", sx("strlen", sx("bs_c", vals[0].t)))))
		}
		return r, true
	case "runtime.NumGoroutine":
		return vc.freshVal("n", types.Typ[types.Int]), true
	case "time.Now":
		return vc.freshVal("now", resT(0)), true
	case "(time.Time).Sub":
		return vc.freshVal("dur", resT(0)), true
	case "iface:context.Context.Err":
		// A-STD: Err() may turn non-nil at any time; each observation is a fresh value
		vc.used["A-STD"] = true
		r := vc.freshVal("ctxerr", resT(0))
		f.setCell(f.cur, "ghost:lastCtxErrNil", SBool, eq(sx("i_typ", r.t), "0"))
		// once a receive from ctx.Done() succeeded the context is done: Err() is non-nil from then on
		vc.declareFun("ctx_done", []Sort{SIface}, SInt)
		rc := f.getCell(f.cur, "ghost:recvd", "(Array Int Bool)")
		vc.assume(implies(sx("select", rc, sx("ctx_done", vals[0].t)), sx("distinct", sx("i_typ", r.t), "0")))
		// ... and Err() is monotone: having observed a non-nil error is having observed that the context is done
		f.setCell(f.cur, "ghost:recvd", "(Array Int Bool)", sx("store", rc, sx("ctx_done", vals[0].t), or(sx("select", rc, sx("ctx_done", vals[0].t)), sx("distinct", sx("i_typ", r.t), "0"))))
		// a context that is hypothesised to stay live (C11 acceptance conditions) reports no error
		vc.P.needSym["StaysLive"] = true
		vc.assume(implies(sx("StaysLive", vals[0].t), eq(sx("i_typ", r.t), "0")))
		return r, true
	case "iface:context.Context.Done":
		vc.used["A-STD"] = true
		vc.declareFun("ctx_done", []Sort{SIface}, SInt)
		d := sx("ctx_done", vals[0].t)
		vc.assume(sx("distinct", d, "0"))
		return Val{d, SInt, resT(0)}, true
	case "context.Background", "context.TODO":
		vc.declare("ctx_background", SIface)
		vc.assume(sx("distinct", sx("i_typ", "ctx_background"), "0"))
		return Val{"ctx_background", SIface, resT(0)}, true
	case "context.WithCancel":
		vc.used["A-STD"] = true
		ctx := vc.fresh("childctx", SIface)
		vc.assume(sx("distinct", sx("i_typ", ctx), "0"))

		vc.assume(eq(sx("ctx_parent", ctx), vals[0].t))
		cancel := f.newRef("cancelfn", resT(1))

		vc.assume(eq(sx("cancel_of", ctx), cancel.t))
		// fresh contexts are distinct from every context created earlier in this function
		for _, o := range vc.ctxs {
			vc.assume(sx("distinct", ctx, o))
		}
		vc.ctxs = append(vc.ctxs, ctx)
		return Tuple{Val{ctx, SIface, resT(0)}, cancel}, true
	case "context.WithTimeout", "context.WithDeadline":
		// A-STD: a fresh child of the parent that additionally ends on its own; cancel function as for WithCancel
		vc.used["A-STD"] = true
		ctx := vc.fresh("childctx", SIface)
		vc.assume(sx("distinct", sx("i_typ", ctx), "0"))
		vc.assume(eq(sx("ctx_parent", ctx), vals[0].t))
		cancel := f.newRef("cancelfn", resT(1))
		vc.assume(eq(sx("cancel_of", ctx), cancel.t))
		for _, o := range vc.ctxs {
			vc.assume(sx("distinct", ctx, o))
		}
		vc.ctxs = append(vc.ctxs, ctx)
		return Tuple{Val{ctx, SIface, resT(0)}, cancel}, true
	case "context.WithoutCancel", "context.WithValue":
		// A-STD: a fresh context; WithoutCancel's result is NOT a child of its argument (it is never cancelled with it),
		// so nothing relates the two; WithValue's result is a child
		vc.used["A-STD"] = true
		ctx := vc.fresh("derivedctx", SIface)
		vc.assume(sx("distinct", sx("i_typ", ctx), "0"))
		if key == "context.WithValue" {
			vc.assume(eq(sx("ctx_parent", ctx), vals[0].t))
		}
		for _, o := range vc.ctxs {
			vc.assume(sx("distinct", ctx, o))
		}
		vc.assume(sx("distinct", ctx, vals[0].t))
		vc.ctxs = append(vc.ctxs, ctx)
		return Val{ctx, SIface, resT(0)}, true
	}
	// sync/atomic on a plain integer cell: within one goroutine (the semantics of a function VC) an atomic operation is the
	// memory operation it names; what other goroutines do to the cell is not modelled (as for every shared cell)
	if strings.HasPrefix(key, "atomic.") && c != nil && len(c.Args) >= 1 {
		if _, isPtr := c.Args[0].Type().Underlying().(*types.Pointer); isPtr {
			p := f.asPtr(c.Args[0])
			if p != nil {
				vc.used["A-STD"] = true
				old := f.loadPtr(f.cur, p)
				arg := func(i int) Val {
					if i < len(c.Args) {
						return f.sval(c.Args[i])
					}
					return old
				}
				switch {
				case strings.HasPrefix(key, "atomic.Load"):
					return old, true
				case strings.HasPrefix(key, "atomic.Store"):
					f.storePtr(f.cur, p, arg(1))
					return Tuple{}, true
				case strings.HasPrefix(key, "atomic.Swap"):
					f.storePtr(f.cur, p, arg(1))
					return old, true
				case strings.HasPrefix(key, "atomic.Add") && !isBV(old.s):
					nv := wrap1(sx("+", old.t, arg(1).t), c.Args[1].Type())
					f.storePtr(f.cur, p, Val{nv, old.s, old.gt})
					return Val{nv, old.s, old.gt}, true
				case strings.HasPrefix(key, "atomic.CompareAndSwap"):
					hit := eq(old.t, arg(1).t)
					f.storePtr(f.cur, p, Val{ite(hit, arg(2).t, old.t), old.s, old.gt})
					return Val{hit, SBool, types.Typ[types.Bool]}, true
				}
			}
		}
	}
	switch key {
	case "time.AfterFunc":
		// A-STD: returns a fresh timer that will run the function once after the delay (ghost: its delay and function)
		vc.used["A-STD"] = true
		tm := f.newRef("timer", resT(0))
		dl := f.getCell(f.cur, "ghost:timerDelay", "(Array Int Int)")
		var d string
		if isBV(vals[0].s) {
			d = sx("bv2nat", vals[0].t)
			vc.errf("time.AfterFunc in mode bv")
		} else {
			d = vals[0].t
		}
		f.setCell(f.cur, "ghost:timerDelay", "(Array Int Int)", sx("store", dl, tm.t, d))
		fnv := f.getCell(f.cur, "ghost:timerFn", "(Array Int Int)")
		f.setCell(f.cur, "ghost:timerFn", "(Array Int Int)", sx("store", fnv, tm.t, vals[1].t))
		return tm, true
	case "(*time.Timer).Stop":
		// A-STD: true iff the call prevented the timer from firing; the observation is kept in a ghost cell
		vc.used["A-STD"] = true
		r := vc.freshVal("stopped", types.Typ[types.Bool])
		st := f.getCell(f.cur, "ghost:timerStopped", "(Array Int Bool)")
		f.setCell(f.cur, "ghost:timerStopped", "(Array Int Bool)", sx("store", st, vals[0].t, "true"))
		f.setCell(f.cur, "ghost:lastTimerStopResult", SBool, r.t)
		return r, true
	case "sort.Slice":
		return f.modelSortSlice(c, pos)
	}
	return nil, false
}

// modelSortSlice: A-SORT. sort.Slice(s, less) leaves a permutation of s; with `less` given as a closure over the
// same slice variable, no adjacent pair is inverted afterwards. Modelled on the slice *variable* the argument was
// loaded from: the variable is havocked, its length is kept, the result is a permutation (bijection ghost), and
// for all i<j: !less(j, i).
func (f *Frame) modelSortSlice(c *ssa.CallCommon, pos token.Pos) (EV, bool) {
	vc := f.vc
	vc.used["A-SORT"] = true
	v := c.Args[0]
	if mi, ok := v.(*ssa.MakeInterface); ok {
		v = mi.X
	}
	u, ok := v.(*ssa.UnOp)
	if !ok || u.Op != token.MUL {
		vc.errf("sort.Slice on a value that is not a variable")
		return Tuple{}, true
	}
	src := f.asPtr(u.X)
	old := f.loadPtr(f.cur, src)
	if !strings.HasPrefix(old.s, "Slice_") {
		vc.errf("sort.Slice on %s", old.s)
		return Tuple{}, true
	}
	// sort.Slice reorders the backing array.  The value model of slices follows that for the variable that is sorted; a slice
	// that existed when the function was entered (a parameter, a captured variable, a field) is shared with the caller, who
	// would see its elements move: an undeclared write, reported unless it can be excluded (like an append to a shortened
	// entry slice, alias.go).
	declared := false
	if f.depth == 0 && vc.con != nil {
		for _, m := range vc.con.Modifies {
			if a, isAlloc := u.X.(*ssa.Alloc); isAlloc && m == "backing:"+a.Comment {
				declared = true // the contract says so: `modifies backing:<param>`; checked again at every call site
			}
		}
	}
	if si := vc.P.shortInfoOf(f.fn); f.depth == 0 && si.entry[u] && !declared {
		n := vc.callOrd["frame:backing-array-sort"]
		vc.callOrd["frame:backing-array-sort"] = n + 1
		fo := vc.addObl(f, "frame", fmt.Sprintf("frame[backing-array].a-slice-the-caller-still-sees-is-not-sorted-in-place#%d", n),
			sx("<=", sx("len_"+old.s, old.t), "1"), "sort.Slice on a slice that existed at entry reorders elements the caller still sees (unless it has at most one element)", pos)
		fo.NotExcluded = true
	}
	es := vc.sortOf(vc.S.elemOf[old.s])
	arr := vc.fresh("sorted", "(Array Int "+es+")")
	n := sx("len_"+old.s, old.t)
	nv := Val{sx("mk_"+old.s, sx("nil_"+old.s, old.t), n, arr), old.s, old.gt}
	// permutation witness
	perm := vc.fresh("perm", "(Array Int Int)")
	inv := vc.fresh("perminv", "(Array Int Int)")
	vc.assume(fmt.Sprintf("(forall ((k Int)) (! (=> (and (<= 0 k) (< k %s)) (and (<= 0 (select %s k)) (< (select %s k) %s) (= (select %s (select %s k)) k) (= (select %s k) (select (el_%s %s) (select %s k))))) :pattern ((select %s k))))",
		n, perm, perm, n, inv, perm, arr, old.s, old.t, perm, arr))
	// every old element occurs in the sorted slice (at position inv[k])
	vc.assume(fmt.Sprintf("(forall ((k Int)) (! (=> (and (<= 0 k) (< k %s)) (and (<= 0 (select %s k)) (< (select %s k) %s) (= (select %s (select %s k)) k) (= (select %s (select %s k)) (select (el_%s %s) k)))) :pattern ((select (el_%s %s) k)) :pattern ((select %s k))))",
		n, inv, inv, n, perm, inv, arr, inv, old.s, old.t, old.s, old.t, inv))
	f.storePtr(f.cur, src, nv)
	// ordering (A-SORT): for all 0 <= qi < qj < n : !less(qj, qi) on the sorted slice. The closure body is evaluated once
	// with two fresh index constants; every constant it introduces becomes a function of (qi, qj) (skolem functions),
	// so the captured definitions and the result can be universally quantified.
	lessEV := f.val(c.Args[1])
	cl, ok := lessEV.(*Closure)
	if !ok {
		vc.errf("sort.Slice: less is not a closure literal")
		return Tuple{}, true
	}
	ci := vc.fresh("sort_i", SInt)
	cj := vc.fresh("sort_j", SInt)
	n0, d0 := len(vc.asserts), len(vc.decls)
	save := vc.specMode
	vc.specMode = true
	res, _, _ := f.inlineCall(cl.fn, []EV{Val{cj, SInt, types.Typ[types.Int]}, Val{ci, SInt, types.Typ[types.Int]}}, cl.bindings, f.cur.clone(), "true")
	vc.specMode = save
	if len(res) != 1 {
		vc.errf("sort.Slice: cannot evaluate less")
		return Tuple{}, true
	}
	lv, ok := evAsVal(res[0])
	if !ok {
		vc.errf("sort.Slice: less has a non-scalar result")
		return Tuple{}, true
	}
	captured := append([]string{}, vc.asserts[n0:]...)
	newDecls := append([]string{}, vc.decls[d0:]...)
	for _, a := range captured {
		delete(vc.assertSet, a)
	}
	vc.asserts = vc.asserts[:n0]
	vc.decls = vc.decls[:d0]
	subst := []string{ci, "sort_qi", cj, "sort_qj"}
	for _, d := range newDecls {
		name := declName(d)
		delete(vc.declSet, name)
		if !strings.HasPrefix(d, "(declare-const ") || !strings.Contains(name, "!") {
			// functions, and initial-state cell constants (|key@gen|), keep their global meaning
			vc.declSet[name] = true
			vc.decls = append(vc.decls, d)
			continue
		}
		srt := strings.TrimSuffix(strings.TrimSpace(d[len("(declare-const ")+len(name):]), ")")
		fn := strings.TrimSuffix(name, "|") + "_f|"
		vc.declareFun(fn, []Sort{SInt, SInt}, srt)
		subst = append(subst, name, "("+fn+" sort_qi sort_qj)")
	}
	rep := strings.NewReplacer(subst...)
	var body []string
	for _, a := range captured {
		body = append(body, rep.Replace(a))
	}
	body = append(body, not(rep.Replace(lv.t)))
	vc.assume(fmt.Sprintf("(forall ((sort_qi Int) (sort_qj Int)) (! (=> (and (<= 0 sort_qi) (< sort_qi sort_qj) (< sort_qj %s)) %s) :pattern ((select %s sort_qi) (select %s sort_qj))))", n, and(body...), arr, arr))
	return Tuple{}, true
}

type sortFact struct{ i, j, n, less string }

func pos0(_ string, c *ssa.CallCommon) token.Pos {
	if c != nil {
		return c.Pos()
	}
	return token.NoPos
}

// iterFieldOfType: "*protocol.BlockProofNodesIterator" -> "Nodes" (the field name is recovered from the Next<Field> method)
func iterFieldOfType(t string) string {
	t = strings.TrimSuffix(strings.TrimPrefix(t, "*protocol."), "Iterator")
	for _, known := range []string{"PrepareSenders", "ViewChangeConfirmations", "Nodes"} {
		if strings.HasSuffix(t, known) {
			return known
		}
	}
	return t
}
