package main

// Symbolic execution of one function body: blocks in topological order of the loop-cut CFG.

import (
	"fmt"
	"go/token"
	"go/types"
	"math/big"
	"sort"
	"strings"

	"golang.org/x/tools/go/ssa"
)

type bigInt = big.Int

var bigOne = big.NewInt(1)

func (vc *VC) newFrame(fn *ssa.Function, depth int, con *Contract) *Frame {
	vc.nfresh++
	f := &Frame{vc: vc, fn: fn, vals: map[ssa.Value]EV{}, in: map[*ssa.BasicBlock]*State{}, out: map[*ssa.BasicBlock]*State{},
		reach: map[*ssa.BasicBlock]string{}, depth: depth, prefix: fmt.Sprintf("%s%d", fn.Name(), vc.nfresh), con: con,
		loops: map[*ssa.BasicBlock]*loopInfo{}, back: map[[2]int]bool{}, localsByName: map[string][]*ssa.Alloc{}}
	return f
}

// findLoops computes back edges (DFS) and natural loops.
func (f *Frame) findLoops() {
	fn := f.fn
	if len(fn.Blocks) == 0 {
		return
	}
	color := map[*ssa.BasicBlock]int{}
	var dfs func(b *ssa.BasicBlock)
	dfs = func(b *ssa.BasicBlock) {
		color[b] = 1
		for _, s := range b.Succs {
			if color[s] == 1 {
				f.back[[2]int{b.Index, s.Index}] = true
				li := f.loops[s]
				if li == nil {
					li = &loopInfo{header: s, blocks: map[*ssa.BasicBlock]bool{s: true}}
					f.loops[s] = li
				}
				li.latches = append(li.latches, b)
			} else if color[s] == 0 {
				dfs(s)
			}
		}
		color[b] = 2
	}
	dfs(fn.Blocks[0])
	for h, li := range f.loops {
		// natural loop: nodes that reach a latch without passing the header
		var stack []*ssa.BasicBlock
		for _, l := range li.latches {
			if !li.blocks[l] {
				li.blocks[l] = true
				stack = append(stack, l)
			}
		}
		for len(stack) > 0 {
			b := stack[len(stack)-1]
			stack = stack[:len(stack)-1]
			for _, p := range b.Preds {
				if !li.blocks[p] && p != h {
					li.blocks[p] = true
					stack = append(stack, p)
				}
			}
		}
	}
	// ordinals in source (block index) order
	var hs []*ssa.BasicBlock
	for h := range f.loops {
		hs = append(hs, h)
	}
	sort.Slice(hs, func(i, j int) bool { return hs[i].Index < hs[j].Index })
	for i, h := range hs {
		f.loops[h].ord = i
		f.classifyLoop(f.loops[h])
	}
}

// classifyLoop derives the stable key of a loop: "range <name>", "iter <name>", "for".
func (f *Frame) classifyLoop(li *loopInfo) {
	h := li.header
	li.kind = "for"
	if strings.HasPrefix(h.Comment, "rangeindex") {
		li.kind = "range"
		// first instruction loads the rangeindex alloc
		for _, ins := range h.Instrs {
			if u, ok := ins.(*ssa.UnOp); ok && u.Op == token.MUL {
				if a, ok := u.X.(*ssa.Alloc); ok && a.Comment == "rangeindex" {
					li.idxCell = f.localKey(a)
				}
			}
			break
		}
		// the ranged-over expression: the len() operand computed before the loop: look in the body for IndexAddr X
		for b := range li.blocks {
			if strings.HasPrefix(b.Comment, "rangeindex.body") {
				for _, ins := range b.Instrs {
					switch x := ins.(type) {
					case *ssa.IndexAddr:
						li.rangeOf = f.nameOfLoaded(x.X)
					case *ssa.Index:
						li.rangeOf = f.nameOfLoaded(x.X)
					}
					if li.rangeOf != "" {
						break
					}
				}
			}
		}
		if li.rangeOf == "" {
			// `for range x` / `for i := range x` : find len(x) feeding the comparison
			for _, ins := range h.Instrs {
				if b, ok := ins.(*ssa.BinOp); ok && b.Op == token.LSS {
					if c, ok := b.Y.(*ssa.Call); ok {
						if bi, ok := c.Call.Value.(*ssa.Builtin); ok && bi.Name() == "len" {
							li.rangeOf = f.nameOfLoaded(c.Call.Args[0])
						}
					}
				}
			}
		}
	} else if strings.HasPrefix(h.Comment, "rangeiter") {
		li.kind = "maprange"
		for _, ins := range h.Instrs {
			if n, ok := ins.(*ssa.Next); ok {
				li.iterVal = n.Iter
				if r, ok := n.Iter.(*ssa.Range); ok {
					li.rangeOf = f.nameOfLoaded(r.X)
					if _, isMap := r.X.Type().Underlying().(*types.Map); isMap {
						li.idxCell = "V:" + f.prefix + ":" + r.Name() + "#n"
					}
				}
			}
		}
	} else {
		// iterator loops: a call to HasNext on some local in the header or first body block
		for b := range li.blocks {
			for _, ins := range b.Instrs {
				if c, ok := ins.(*ssa.Call); ok {
					if fn := c.Call.StaticCallee(); fn != nil && fn.Name() == "HasNext" && len(c.Call.Args) > 0 {
						li.kind = "iter"
						li.rangeOf = f.nameOfLoaded(c.Call.Args[0])
					}
				}
			}
		}
	}
}

func (f *Frame) nameOfLoaded(v ssa.Value) string {
	switch x := v.(type) {
	case *ssa.UnOp:
		if x.Op == token.MUL {
			switch a := x.X.(type) {
			case *ssa.Alloc:
				return a.Comment
			case *ssa.FieldAddr:
				st, _ := f.structOfPtr(a.X.Type())
				if st != nil {
					return f.nameOfLoaded(a.X) + "." + st.Field(a.Field).Name()
				}
			}
		}
	case *ssa.Parameter:
		return x.Name()
	case *ssa.Call:
		if fn := x.Call.StaticCallee(); fn != nil {
			return fn.Name() + "()"
		}
	}
	return ""
}

func (li *loopInfo) keys() []string {
	ks := []string{fmt.Sprintf("#%d", li.ord)}
	switch li.kind {
	case "range", "iter", "maprange":
		k := li.kind
		if k == "maprange" {
			k = "range"
		}
		if li.rangeOf != "" {
			ks = append(ks, k+" "+li.rangeOf)
		}
	}
	ks = append(ks, li.kind)
	return ks
}

func (f *Frame) localKey(a *ssa.Alloc) string {
	return "L:" + f.prefix + ":" + a.Name() + ":" + a.Comment
}

func (f *Frame) edgeCond(p, b *ssa.BasicBlock) string {
	r := f.reach[p]
	if len(p.Instrs) == 0 {
		return r
	}
	if ifi, ok := p.Instrs[len(p.Instrs)-1].(*ssa.If); ok {
		c := f.sval(ifi.Cond).t
		if p.Succs[0] == b && p.Succs[1] == b {
			return r
		}
		if p.Succs[0] == b {
			return and(r, c)
		}
		return and(r, not(c))
	}
	return r
}

// run executes the function body. args are the parameter values; st is the entry state.
func (f *Frame) run(args []EV, freeVars []EV, st *State, reach string) {
	fn := f.fn
	vc := f.vc
	if len(fn.Blocks) == 0 {
		vc.errf("%s has no body", vc.P.fnKey(fn))
		return
	}
	for i, p := range fn.Params {
		f.vals[p] = args[i]
	}
	for i, fv := range fn.FreeVars {
		if i < len(freeVars) {
			f.vals[fv] = freeVars[i]
		}
	}
	f.entry = st.clone()
	f.findLoops()
	f.bindLoopSpecs()
	// topological order ignoring back edges
	order := f.topo()
	for _, b := range order {
		f.curBlock = b
		var cur *State
		var r string
		if b.Index == 0 {
			cur, r = st.clone(), reach
		} else {
			cur, r = f.join(b)
		}
		if cur == nil {
			continue // unreachable (all preds ended in panic/return)
		}
		f.cur, f.curReach = cur, r
		f.reach[b] = r
		if li := f.loops[b]; li != nil {
			f.loopHeader(li)
		}
		f.in[b] = f.cur.clone()
		f.panicked = false
		for _, ins := range b.Instrs {
			f.exec(ins)
			if f.panicked {
				break
			}
		}
		f.out[b] = f.cur
		if !f.panicked {
			for _, s := range b.Succs {
				if f.back[[2]int{b.Index, s.Index}] {
					f.loopLatch(f.loops[s], b)
				}
			}
		}
	}
}

func (f *Frame) topo() []*ssa.BasicBlock {
	fn := f.fn
	visited := map[*ssa.BasicBlock]bool{}
	var post []*ssa.BasicBlock
	var dfs func(b *ssa.BasicBlock)
	dfs = func(b *ssa.BasicBlock) {
		visited[b] = true
		for i := len(b.Succs) - 1; i >= 0; i-- {
			s := b.Succs[i]
			if f.back[[2]int{b.Index, s.Index}] || visited[s] {
				continue
			}
			dfs(s)
		}
		post = append(post, b)
	}
	dfs(fn.Blocks[0])
	for i, j := 0, len(post)-1; i < j; i, j = i+1, j-1 {
		post[i], post[j] = post[j], post[i]
	}
	return post
}

// join merges the out-states of the forward predecessors of b.
func (f *Frame) join(b *ssa.BasicBlock) (*State, string) {
	vc := f.vc
	type inc struct {
		cond string
		st   *State
	}
	var ins []inc
	for _, p := range b.Preds {
		if f.back[[2]int{p.Index, b.Index}] {
			continue
		}
		st, ok := f.out[p]
		if !ok || st == nil {
			continue
		}
		if n := len(p.Instrs); n > 0 {
			switch p.Instrs[n-1].(type) {
			case *ssa.Panic, *ssa.Return:
				continue
			}
		}
		if _, dead := f.deadEnd[p]; dead {
			continue
		}
		ins = append(ins, inc{f.edgeCond(p, b), st})
	}
	if len(ins) == 0 {
		return nil, "false"
	}
	if len(ins) == 1 {
		r := ins[0].cond
		if len(r) > 40 {
			c := vc.fresh("reach_"+fmt.Sprint(b.Index), SBool)
			vc.assume(eq(c, r))
			r = c
		}
		return ins[0].st.clone(), r
	}
	var conds []string
	for _, i := range ins {
		conds = append(conds, i.cond)
	}
	r := vc.fresh("reach_"+fmt.Sprint(b.Index), SBool)
	vc.assume(eq(r, or(conds...)))
	keys := map[string]bool{}
	maxGen := 0
	for _, i := range ins {
		for k := range i.st.cells {
			keys[k] = true
		}
		if i.st.gen > maxGen {
			maxGen = i.st.gen
		}
	}
	ns := &State{cells: map[string]string{}, gen: maxGen, cellGen: map[string]int{}}
	// generations of cells nobody materialised yet
	cg := map[string]bool{}
	for _, i := range ins {
		for k := range i.st.cellGen {
			if !keys[k] {
				cg[k] = true
			}
		}
	}
	for k := range cg {
		g0 := ins[0].st.genOf(k)
		same := true
		for _, i := range ins {
			if i.st.genOf(k) != g0 {
				same = false
			}
		}
		if same {
			ns.cellGen[k] = g0
		} else {
			ns.cellGen[k] = vc.nextGen()
		}
	}
	for _, i := range ins {
		if i.st.gen != maxGen {
			// differing default generations: untouched cells may differ between branches -> new default generation
			ns.gen = vc.nextGen()
			break
		}
	}
	var ks []string
	for k := range keys {
		ks = append(ks, k)
	}
	sort.Strings(ks)
	for _, k := range ks {
		s := vc.cellSort[k]
		same := true
		var vals []string
		for _, i := range ins {
			v, ok := i.st.cells[k]
			if !ok {
				v = vc.cellInit(k, s, i.st.genOf(k))
			}
			vals = append(vals, v)
			if v != vals[0] {
				same = false
			}
		}
		if same {
			ns.cells[k] = vals[0]
			continue
		}
		c := vc.fresh(k+"@b"+fmt.Sprint(b.Index), s)
		t := vals[len(vals)-1]
		for i := len(vals) - 2; i >= 0; i-- {
			t = ite(ins[i].cond, vals[i], t)
		}
		vc.assume(eq(c, t))
		ns.cells[k] = c
	}
	return ns, r
}

// ---------- loops ----------

func (f *Frame) bindLoopSpecs() {
	if f.con == nil {
		return
	}
	var lis []*loopInfo
	for _, li := range f.loops {
		lis = append(lis, li)
	}
	sort.Slice(lis, func(i, j int) bool { return lis[i].ord < lis[j].ord })
	for _, li := range lis {
		for _, k := range li.keys() {
			for _, ls := range f.con.Loops {
				if !ls.Used && ls.Key == k {
					li.spec = ls
					ls.Used = true
					break
				}
			}
			if li.spec != nil {
				break
			}
		}
	}
	// loops whose key changed (e.g. a range loop rewritten as an index loop): remaining specs bind in source order
	for _, li := range lis {
		if li.spec != nil {
			continue
		}
		for _, ls := range f.con.Loops {
			if !ls.Used {
				li.spec = ls
				ls.Used = true
				f.vc.notes = append(f.vc.notes, fmt.Sprintf("loop clause %q bound by position to loop %v", ls.Key, li.header))
				break
			}
		}
	}
}

// modifiedCells statically over-approximates the cells a loop body may write. ok=false: unknown (havoc all).
func (f *Frame) modifiedCells(li *loopInfo) (map[string]bool, bool) {
	mod := map[string]bool{}
	ok := true
	// local slice variables that the loop writes only element-wise (s[i] = x): their length and nil-ness survive the loop
	whole := map[string]bool{}
	li.elemOnly = map[string]bool{}
	for b := range li.blocks {
		for _, ins := range b.Instrs {
			switch x := ins.(type) {
			case *ssa.Store:
				if ia, isIdx := x.Addr.(*ssa.IndexAddr); isIdx {
					if u, isLoad := ia.X.(*ssa.UnOp); isLoad && u.Op == token.MUL {
						if a, isAlloc := u.X.(*ssa.Alloc); isAlloc && !a.Heap {
							li.elemOnly[f.localKey(a)] = true
						}
					}
				} else if a, isAlloc := x.Addr.(*ssa.Alloc); isAlloc && !a.Heap {
					whole[f.localKey(a)] = true
				}
				if !f.rootsOfAddr(x.Addr, mod) {
					ok = false
				}
			case *ssa.Alloc:
				if !x.Heap {
					mod[f.localKey(x)] = true
				} else {
					f.heapAllocCells(x, mod)
					mod["ghost:alive"] = true
				}
			case *ssa.MakeMap:
				mod["ghost:alive"] = true
				mod[f.mapKey(x.Type())] = true
			case *ssa.MakeChan, *ssa.MakeClosure:
				mod["ghost:alive"] = true
			case *ssa.MapUpdate:
				mod[f.mapKey(x.Map.Type())] = true
			case *ssa.Call:
				if !f.callMods(&x.Call, mod) {
					ok = false
				}
			case *ssa.Defer:
				if !f.callMods(&x.Call, mod) {
					ok = false
				}
			case *ssa.Go, *ssa.Send, *ssa.Select:
			}
		}
	}
	for k := range whole {
		delete(li.elemOnly, k)
	}
	return mod, ok
}

func (f *Frame) heapAllocCells(a *ssa.Alloc, mod map[string]bool) {
	et := a.Type().(*types.Pointer).Elem()
	if st, ok := et.Underlying().(*types.Struct); ok {
		for i := 0; i < st.NumFields(); i++ {
			mod[f.heapKey(et, st.Field(i).Name())] = true
		}
		return
	}
	mod[f.allocCellKey(a)] = true
}

func (f *Frame) allocCellKey(a *ssa.Alloc) string {
	et := a.Type().(*types.Pointer).Elem()
	if a.Heap {
		if _, ok := et.Underlying().(*types.Struct); ok {
			return "OBJ"
		}
		if _, ok := et.Underlying().(*types.Array); ok {
			return f.localKey(a)
		}
		return "D:" + f.vc.S.typeName(et)
	}
	return f.localKey(a)
}

func (f *Frame) rootsOfAddr(v ssa.Value, mod map[string]bool) bool {
	switch x := v.(type) {
	case *ssa.Alloc:
		k := f.allocCellKey(x)
		if k == "OBJ" {
			f.heapAllocCells(x, mod)
		} else {
			mod[k] = true
		}
		return true
	case *ssa.Global:
		mod["G:"+x.Pkg.Pkg.Name()+"."+x.Name()] = true
		return true
	case *ssa.FieldAddr:
		if a, ok := x.X.(*ssa.Alloc); ok && f.allocCellKey(a) != "OBJ" {
			mod[f.allocCellKey(a)] = true
			return true
		}
		if fa, ok := x.X.(*ssa.FieldAddr); ok {
			return f.rootsOfAddr(fa, mod)
		}
		if ia, ok := x.X.(*ssa.IndexAddr); ok {
			return f.rootsOfAddr(ia, mod)
		}
		st, named := f.structOfPtr(x.X.Type())
		if st != nil {
			mod[f.heapKey(named, st.Field(x.Field).Name())] = true
			return true
		}
	case *ssa.IndexAddr:
		if u, ok := x.X.(*ssa.UnOp); ok && u.Op == token.MUL {
			return f.rootsOfAddr(u.X, mod)
		}
		if _, ok := x.X.Type().Underlying().(*types.Pointer); ok {
			return f.rootsOfAddr(x.X, mod)
		}
	case *ssa.Parameter, *ssa.UnOp, *ssa.Call, *ssa.Extract, *ssa.FreeVar, *ssa.Lookup:
		if pt, ok := v.Type().Underlying().(*types.Pointer); ok {
			if st, ok := pt.Elem().Underlying().(*types.Struct); ok {
				for i := 0; i < st.NumFields(); i++ {
					mod[f.heapKey(pt.Elem(), st.Field(i).Name())] = true
				}
				return true
			}
			mod["D:"+f.vc.S.typeName(pt.Elem())] = true
			return true
		}
	}
	return false
}

// mapKey names the heap of the maps of one type. Maps are grouped by (key sort, element sort); maps whose elements are
// maps again additionally by their depth of nesting (Go's typing keeps such levels apart, and the verifier needs to know
// that a write to an inner map cannot hit an outer one), written M:K:V#<depth>.
func (f *Frame) mapKey(t types.Type) string {
	m := t.Underlying().(*types.Map)
	k := "M:" + f.vc.sortOf(m.Key()) + ":" + f.vc.sortOf(m.Elem())
	d := 0
	for e := m.Elem(); ; d++ {
		em, ok := e.Underlying().(*types.Map)
		if !ok {
			break
		}
		e = em.Elem()
	}
	if d > 0 {
		k += fmt.Sprintf("#%d", d)
	}
	return k
}

// callMods adds the cells a call may modify.
func (f *Frame) callMods(c *ssa.CallCommon, mod map[string]bool) bool {
	vc := f.vc
	if b, ok := c.Value.(*ssa.Builtin); ok {
		if b.Name() == "delete" {
			mod[f.mapKey(c.Args[0].Type())] = true
		}
		if b.Name() == "copy" {
			return false
		}
		return true
	}
	key, con, kind := vc.P.resolveCall(f, c)
	mod["ghost:alive"] = true
	if kind == "model" && strings.HasPrefix(key, "(*protocol.") {
		mod["ghost:iterpos"] = true
	}
	if kind == "model" && strings.HasPrefix(key, "iface:context.Context.Err") {
		mod["ghost:lastCtxErrNil"] = true
	}
	if kind == "unknown" && c.IsInvoke() && strings.HasPrefix(key, "iface:interfaces.") {
		return true // A-SPI: consumer SPI methods do not touch library state
	}
	switch kind {
	case "contract":
		if con.ModAll {
			return false
		}
		for _, m := range vc.P.effMods(con) {
			mod[vc.P.modKey(m)] = true
		}
		return true
	case "model", "pure", "skip":
		if key == "sort.Slice" {
			return f.rootsOfSliceArg(c.Args[0], mod)
		}
		return true
	case "inline":
		callee := c.StaticCallee()
		if mc, ok := c.Value.(*ssa.MakeClosure); ok {
			callee = mc.Fn.(*ssa.Function)
		}
		if callee == nil || callee.Blocks == nil {
			return false
		}
		if vc.P.scanning[callee] {
			return false
		}
		vc.P.scanning[callee] = true
		defer delete(vc.P.scanning, callee)
		sub := vc.newFrame(callee, f.depth+1, nil)
		all := &loopInfo{blocks: map[*ssa.BasicBlock]bool{}}
		for _, b := range callee.Blocks {
			all.blocks[b] = true
		}
		m2, ok := sub.modifiedCells(all)
		for k := range m2 {
			if !strings.HasPrefix(k, "L:") {
				mod[k] = true
			}
		}
		return ok
	}
	return false
}

func (f *Frame) rootsOfSliceArg(v ssa.Value, mod map[string]bool) bool {
	if mi, ok := v.(*ssa.MakeInterface); ok {
		v = mi.X
	}
	if u, ok := v.(*ssa.UnOp); ok && u.Op == token.MUL {
		return f.rootsOfAddr(u.X, mod)
	}
	return false
}

func (f *Frame) loopHeader(li *loopInfo) {
	vc := f.vc
	fnKey := vc.P.fnKey(f.fn)
	if li.spec == nil {
		// no invariant: the loop is abstracted by havocking everything it may write (sound; usually too weak to
		// prove anything about what the loop computes, which then shows up as an undischarged obligation)
		vc.notes = append(vc.notes, fmt.Sprintf("%s: loop %v has no invariant (keys: %s): abstracted by havoc", fnKey, li.header, strings.Join(li.keys(), " | ")))
	}
	for _, ins := range li.header.Instrs {
		if _, ok := ins.(*ssa.Phi); ok {
			vc.errf("%s: phi at loop header unsupported", fnKey)
		}
	}
	// 1. invariants hold on entry
	if li.spec != nil {
		for i, inv := range li.spec.Invs {
			t := f.evalClause(inv, f.cur, f.entry, nil, li)
			f.vc.addObl(f, "inv-entry", fmt.Sprintf("loop[%s].inv[%s].entry", li.spec.Key, clauseName(inv, i)), t, inv.Src, li.header.Instrs[0].Pos())
		}
	}
	// 2. havoc
	preLoop := f.cur.clone()
	mod, ok := f.modifiedCells(li)
	if !ok {
		// unknown effects: havoc every heap cell, keep locals not written in the loop
		for k := range f.cur.cells {
			if !strings.HasPrefix(k, "L:") {
				mod[k] = true
			}
		}
		f.cur.gen = vc.nextGen()
	}
	var ks []string
	for k := range mod {
		ks = append(ks, k)
	}
	sort.Strings(ks)
	for _, k := range ks {
		s, known := vc.cellSort[k]
		if !known {
			if ds := vc.sortOfCellKey(k); ds != "" && strings.HasPrefix(ds, "(Array Int ") {
				s, known = ds, true
				vc.cellSort[k] = ds
			}
		}
		if !known {
			// never materialised so far: later reads must not see the entry-state constant
			f.cur.cellGen[k] = vc.nextGen()
			delete(f.cur.cells, k)
			continue
		}
		c := vc.fresh(k+"@loop"+fmt.Sprint(li.header.Index), s)
		if prev, had := f.cur.cells[k]; had && li.elemOnly[k] && strings.HasPrefix(s, "Slice_") && s != SBS {
			// only elements were stored: same length, same nil-ness
			vc.assume(and(eq(sx("len_"+s, c), sx("len_"+s, prev)), eq(sx("nil_"+s, c), sx("nil_"+s, prev))))
		}
		f.cur.cells[k] = c
		if t := vc.cellType[k]; t != nil {
			vc.assume(vc.S.wellTyped(c, t, 0))
		}
	}
	li.modSet = mod
	// range over a map: the set of keys produced so far is arbitrary at the head of an arbitrary iteration (it is empty
	// on entry, which is the state the entry obligations above were evaluated in)
	if li.kind == "maprange" && li.iterVal != nil {
		if r, ok := li.iterVal.(*ssa.Range); ok {
			if mt, ok := r.X.Type().Underlying().(*types.Map); ok {
				visKey := "V:" + f.prefix + ":" + r.Name()
				visSort := "(Array " + vc.sortOf(mt.Key()) + " Bool)"
				vc.cellSort[visKey] = visSort
				f.cur.cells[visKey] = vc.fresh(visKey+"@loop"+fmt.Sprint(li.header.Index), visSort)
				cnt := vc.fresh(visKey+"#n@loop"+fmt.Sprint(li.header.Index), SInt)
				f.cur.cells[visKey+"#n"] = cnt
				vc.assume(sx("<=", "0", cnt))
				li.idxCell = visKey + "#n"
			}
		}
	}
	// alive only grows: what was alive before the loop is alive in every iteration
	if mod["ghost:alive"] {
		if cur, ok := f.cur.cells["ghost:alive"]; ok {
			pre := f.getCell(preLoop, "ghost:alive", aliveSort)
			vc.assume(fmt.Sprintf("(forall ((x Int)) (! (=> (select %s x) (select %s x)) :pattern ((select %s x))))", pre, cur, pre))
		}
	}
	// implicit frame invariant (every loop, with or without a `loop` clause, at every inlining depth): heap cells that
	// are not in the `modifies` of the function under verification stay unchanged on the objects that were alive when
	// this frame was entered (objects the frame allocated itself may be written). Obligation on loop entry and at every
	// latch, assumption at the header.
	li.frameKeys = nil
	{
		declared := map[string]bool{}
		if vc.con != nil {
			for _, m := range vc.P.effMods(vc.con) {
				declared[vc.P.modKey(m)] = true
			}
		}
		aliveEntry := f.getCell(f.entry, "ghost:alive", aliveSort)
		for _, k := range ks {
			srt, known := vc.cellSort[k]
			if !known && k == "ghost:iterpos" { // created inside the loop body before it was ever read
				srt, known = "(Array Int Int)", true
				vc.cellSort[k] = srt
			}
			if !known || declared[k] || vc.P.untrackedKey(k) || (vc.con != nil && vc.con.ModAll) || !(strings.HasPrefix(k, "H:") || strings.HasPrefix(k, "D:") || strings.HasPrefix(k, "M:") || k == "ghost:iterpos") || !strings.HasPrefix(srt, "(Array Int ") {
				continue
			}
			entryV := f.getCell(f.entry, k, srt)
			// holds on loop entry iff it holds for the pre-loop value (checked as an obligation only when they differ)
			pre := f.getCell(preLoop, k, srt)
			if pre != entryV {
				goal := fmt.Sprintf("(forall ((fr Int)) (=> (select %s fr) (= (select %s fr) (select %s fr))))", aliveEntry, pre, entryV)
				vc.addObl(f, "frame", fmt.Sprintf("loop[%s].frame[%s].entry", f.loopLabel(li), k), goal, "implicit frame invariant", li.header.Instrs[0].Pos())
			}
			cur := f.getCell(f.cur, k, srt)
			vc.assume(implies(f.curReach, fmt.Sprintf("(forall ((fr Int)) (! (=> (select %s fr) (= (select %s fr) (select %s fr))) :pattern ((select %s fr))))", aliveEntry, cur, entryV, cur)))
			li.frameKeys = append(li.frameKeys, k)
		}
	}
	// 3. assume invariants (+ implicit range-index bounds)
	if li.kind == "range" && li.idxCell != "" {
		idx := f.getCell(f.cur, li.idxCell, SInt)
		vc.assume(implies(f.curReach, sx("<=", "(- 1)", idx)))
		// the hidden index never exceeds the length it is compared with (shape of rangeindex loops)
		for _, ins := range li.header.Instrs {
			if b, ok := ins.(*ssa.BinOp); ok && b.Op == token.LSS {
				if lv, ok := f.vals[b.Y].(Val); ok {
					vc.assume(implies(f.curReach, sx("<", idx, lv.t)))
					vc.assume(implies(f.curReach, sx("<=", lv.t, "9223372036854775807")))
				}
			}
		}
	}
	if li.spec != nil {
		for _, inv := range li.spec.Invs {
			t := f.evalClause(inv, f.cur, f.entry, nil, li)
			vc.assume(implies(f.curReach, t))
		}
	}
}

func clauseName(c Clause, i int) string {
	if c.Label != "" {
		return c.Label
	}
	return fmt.Sprint(i)
}

func (f *Frame) loopLatch(li *loopInfo, latch *ssa.BasicBlock) {
	if li == nil {
		return
	}
	// reach of the back edge
	save := f.curReach
	f.curReach = f.edgeCond(latch, li.header)
	if li.spec != nil {
		for i, inv := range li.spec.Invs {
			t := f.evalClause(inv, f.cur, f.entry, nil, li)
			f.vc.addObl(f, "inv-preserved", fmt.Sprintf("loop[%s].inv[%s].preserved@%d", li.spec.Key, clauseName(inv, i), f.latchOrdinal(li, latch)), t, inv.Src, li.header.Instrs[0].Pos())
		}
	}
	if len(li.frameKeys) > 0 {
		aliveEntry := f.getCell(f.entry, "ghost:alive", aliveSort)
		for _, k := range li.frameKeys {
			srt := f.vc.cellSort[k]
			entryV := f.getCell(f.entry, k, srt)
			cur := f.getCell(f.cur, k, srt)
			goal := fmt.Sprintf("(forall ((fr Int)) (=> (select %s fr) (= (select %s fr) (select %s fr))))", aliveEntry, cur, entryV)
			f.vc.addObl(f, "frame", fmt.Sprintf("loop[%s].frame[%s].preserved@%d", f.loopLabel(li), k, f.latchOrdinal(li, latch)), goal, "implicit frame invariant", li.header.Instrs[0].Pos())
		}
	}
	f.curReach = save
}

// latchOrdinal numbers the back edges of a loop in source order (stable when unrelated code is inserted elsewhere,
// unlike SSA block indices).
func (f *Frame) latchOrdinal(li *loopInfo, latch *ssa.BasicBlock) int {
	n := 0
	for b := range li.blocks {
		if b.Index < latch.Index {
			for _, s := range b.Succs {
				if s == li.header {
					n++
					break
				}
			}
		}
	}
	return n
}

// loopLabel names a loop in obligation labels; loops of inlined functions carry the function's name.
func (f *Frame) loopLabel(li *loopInfo) string {
	if f.depth > 0 {
		return loopName(li) + "@" + f.vc.P.fnKey(f.fn)
	}
	return loopName(li)
}

func loopName(li *loopInfo) string {
	if li.spec != nil {
		return li.spec.Key
	}
	return fmt.Sprintf("#%d", li.ord)
}

func (vc *VC) nextGen() int {
	vc.gen++
	return vc.gen
}

// ---------- instructions ----------

func (f *Frame) exec(ins ssa.Instruction) {
	vc := f.vc
	switch x := ins.(type) {
	case *ssa.DebugRef:
	case *ssa.Alloc:
		f.execAlloc(x)
	case *ssa.Store:
		f.execStore(x.Addr, f.val(x.Val), x.Pos())
	case *ssa.UnOp:
		f.execUnOp(x)
	case *ssa.BinOp:
		if x.Op == token.ADD && f.isRangeIndexLoad(x.X) {
			// hidden range index + 1: cannot overflow (index < len <= MaxInt64 is assumed at the loop header)
			a, b := f.sval(x.X), f.sval(x.Y)
			if b.t == "1" && a.s == SInt {
				f.vals[x] = Val{sx("+", a.t, "1"), SInt, x.Type()}
				return
			}
		}
		f.vals[x] = f.binop(x.Op, f.sval(x.X), f.sval(x.Y), x.Type(), x.Pos())
	case *ssa.Phi:
		f.execPhi(x)
	case *ssa.Call:
		f.vals[x] = f.execCall(&x.Call, x, x.Pos())
	case *ssa.ChangeType:
		v := f.val(x.X)
		if sv, ok := v.(Val); ok {
			sv.gt = x.Type()
			f.vals[x] = sv
		} else {
			f.vals[x] = v
		}
	case *ssa.Convert:
		f.vals[x] = f.convert(f.sval(x.X), x.Type())
	case *ssa.ChangeInterface:
		v := f.sval(x.X)
		v.gt = x.Type()
		f.vals[x] = v
	case *ssa.MakeInterface:
		f.execMakeInterface(x)
	case *ssa.MakeClosure:
		var bs []EV
		for _, b := range x.Bindings {
			bs = append(bs, f.val(b))
		}
		id := f.newRef("closure:"+x.Fn.Name(), x.Type())
		cl := &Closure{fn: x.Fn.(*ssa.Function), bindings: bs, id: id}
		f.vals[x] = cl
		f.closureSpec(cl)
	case *ssa.MakeMap:
		r := f.newRef("map", x.Type())
		key := f.mapKey(x.Type())
		ms := f.mapValSort(x.Type())
		as := "(Array Int " + ms + ")"
		arr := f.getCell(f.cur, key, as)
		f.setCell(f.cur, key, as, sx("store", arr, r.t, f.emptyMap(x.Type())))
		f.vals[x] = r
	case *ssa.MakeChan:
		ch := f.newRef("chan", x.Type())
		vc.declareFun("chan_cap", []Sort{SInt}, SInt)
		vc.assume(eq(sx("chan_cap", ch.t), f.sval(x.Size).t))
		cl := f.getCell(f.cur, "ghost:closed", "(Array Int Bool)")
		vc.assume(not(sx("select", cl, ch.t))) // a new channel is open
		f.vals[x] = ch
	case *ssa.MakeSlice:
		f.execMakeSlice(x)
	case *ssa.Slice:
		f.execSlice(x)
	case *ssa.FieldAddr:
		f.execFieldAddr(x)
	case *ssa.Field:
		v := f.sval(x.X)
		st := x.X.Type().Underlying().(*types.Struct)
		ft := st.Field(x.Field).Type()
		f.vals[x] = Val{sx(vc.S.fieldSel(v.s, st, x.Field), v.t), vc.sortOf(ft), ft}
	case *ssa.IndexAddr:
		f.execIndexAddr(x)
	case *ssa.Index:
		f.execIndex(x)
	case *ssa.Lookup:
		f.execLookup(x)
	case *ssa.MapUpdate:
		f.execMapUpdate(x)
	case *ssa.TypeAssert:
		f.execTypeAssert(x)
	case *ssa.Extract:
		t := f.val(x.Tuple)
		if tup, ok := t.(Tuple); ok && x.Index < len(tup) {
			f.vals[x] = tup[x.Index]
		} else {
			vc.errf("%s: extract from non-tuple", vc.P.fnKey(f.fn))
			f.vals[x] = vc.freshVal("extract", x.Type())
		}
	case *ssa.Range:
		f.vals[x] = f.val(x.X)
		if mt, ok := x.X.Type().Underlying().(*types.Map); ok {
			// number of keys produced so far, and the size of the map when the iteration starts
			m := f.sval(x.X)
			f.cur.cells["V:"+f.prefix+":"+x.Name()+"#n"] = "0"
			f.vc.cellSort["V:"+f.prefix+":"+x.Name()+"#n"] = SInt
			f.cur.cells["V:"+f.prefix+":"+x.Name()+"#n0"] = f.mapLen(f.cur, m.t, x.X.Type())
			f.vc.cellSort["V:"+f.prefix+":"+x.Name()+"#n0"] = SInt
			_ = mt
		}
	case *ssa.Next:
		f.execNext(x)
	case *ssa.Select:
		f.execSelect(x)
	case *ssa.Send:
		f.effect("send", x.Pos())
		ns := f.getCell(f.cur, "ghost:nsent", SInt)
		f.setCell(f.cur, "ghost:nsent", SInt, sx("+", ns, "1"))
		if g := f.vc.P.lastSentGhost(x.Chan.Type()); g != "" {
			if sv, ok := evAsVal(f.val(x.X)); ok && sv.s == SInt {
				ls := f.getCell(f.cur, g, "(Array Int Int)")
				f.setCell(f.cur, g, "(Array Int Int)", sx("store", ls, f.sval(x.Chan).t, sv.t))
			}
		}
	case *ssa.Go:
		f.effect("go", x.Pos())
	case *ssa.Defer:
		f.defers = append(f.defers, x)
	case *ssa.RunDefers:
		for i := len(f.defers) - 1; i >= 0; i-- {
			d := f.defers[i]
			if !d.Block().Dominates(f.curBlock) {
				vc.errf("%s: conditional defer unsupported", vc.P.fnKey(f.fn))
				continue
			}
			f.execCall(&d.Call, nil, d.Pos())
		}
	case *ssa.Panic:
		f.execPanic(x)
	case *ssa.Return:
		var vs []EV
		for _, r := range x.Results {
			vs = append(vs, f.val(r))
		}
		f.rets = append(f.rets, retSite{f.curReach, f.cur.clone(), vs, x.Pos()})
	case *ssa.If, *ssa.Jump:
	default:
		vc.errf("%s: unsupported instruction %T", vc.P.fnKey(f.fn), ins)
		if v, ok := ins.(ssa.Value); ok {
			f.vals[v] = vc.freshVal("unsupported", v.Type())
		}
	}
}

// closureSpec: a function literal that has its own (verified) contract and the shape func(int-like) bytes is
// summarised at creation: for all arguments a, requires => ensures[result := LeaderFn(closure, a)].
func (f *Frame) closureSpec(cl *Closure) {
	vc := f.vc
	con := vc.P.contracts.ByKey[vc.P.fnKey(cl.fn)]
	if con == nil || len(con.Ensures) == 0 || len(cl.fn.Params) != 1 || cl.fn.Signature.Results().Len() != 1 {
		return
	}
	p := cl.fn.Params[0]
	if vc.sortOf(p.Type()) != SInt || vc.sortOf(cl.fn.Signature.Results().At(0).Type()) != SBS {
		return
	}
	vc.P.needSym["LeaderFn"] = true
	env := &Env{f: f, names: map[string]EV{}, st: f.cur, old: f.cur, pkg: cl.fn.Pkg.Pkg}
	qv := "cv_" + strings.ReplaceAll(strings.Trim(cl.id.t, "|"), "!", "_")
	qv = mangle(qv)
	env.names[p.Name()] = Val{qv, SInt, p.Type()}
	for i, fv := range cl.fn.FreeVars {
		if i < len(cl.bindings) {
			env.names[fv.Name()] = cl.bindings[i]
		}
	}
	env.results = []EV{Val{sx("LeaderFn", cl.id.t, qv), SBS, cl.fn.Signature.Results().At(0).Type()}}
	env.underQuant = true
	vc.quantDepth++
	vc.quantVars = append(vc.quantVars, qv)
	defer func() { vc.quantVars = vc.quantVars[:len(vc.quantVars)-1] }()
	var pre, post []string
	for _, r := range con.Requires {
		pre = append(pre, env.evalBool(r.E))
	}
	for _, e := range con.Ensures {
		if !e.BodyOnly {
			post = append(post, env.evalBool(e.E))
		}
	}
	vc.quantDepth--
	lo, hi, _ := intRange(p.Type())
	rng := "true"
	if lo != nil {
		rng = and(sx("<=", bigLit(lo), qv), sx("<=", qv, bigLit(hi)))
	}
	vc.used["CLOSURE-SPEC:"+vc.P.fnKey(cl.fn)] = true
	vc.assume(fmt.Sprintf("(forall ((%s Int)) (! (=> %s %s) :pattern ((LeaderFn %s %s))))", qv, and(rng, and(pre...)), and(post...), cl.id.t, qv))
}

func (f *Frame) isRangeIndexLoad(v ssa.Value) bool {
	if u, ok := v.(*ssa.UnOp); ok && u.Op == token.MUL {
		if a, ok := u.X.(*ssa.Alloc); ok && a.Comment == "rangeindex" {
			return true
		}
	}
	return false
}

func (f *Frame) effect(kind string, pos token.Pos) {
	f.vc.used["A-CHAN"] = true
}

func (f *Frame) execPanic(x *ssa.Panic) {
	lvl := f.safetyLevel()
	if lvl != "none" {
		n := f.vc.callOrd["safety:panic"]
		f.vc.callOrd["safety:panic"] = n + 1
		f.vc.addObl(f, "safety", fmt.Sprintf("safety.explicit-panic#%d", n), "false", "panic statement must be unreachable", x.Pos())
	}
	f.panicked = true
	f.markDead()
}

func (f *Frame) markDead() {
	if f.deadEnd == nil {
		f.deadEnd = map[*ssa.BasicBlock]bool{}
	}
	f.deadEnd[f.curBlock] = true
}

func (f *Frame) execAlloc(x *ssa.Alloc) {
	vc := f.vc
	et := x.Type().(*types.Pointer).Elem()
	if x.Comment != "" {
		f.localsByName[x.Comment] = append(f.localsByName[x.Comment], x)
	}
	key := f.allocCellKey(x)
	switch {
	case key == "OBJ":
		r := f.newRef("new:"+vc.S.typeName(et), x.Type())
		f.storeStruct(f.cur, r.t, et, Val{vc.S.zero(et), vc.sortOf(et), et})
		f.vals[x] = r
	case strings.HasPrefix(key, "D:"):
		r := f.newRef("new:"+vc.S.typeName(et), x.Type())
		p := &Ptr{root: key, ref: r.t, rootT: et, elemT: et}
		f.storePtr(f.cur, p, Val{vc.S.zero(et), vc.sortOf(et), et})
		f.vals[x] = p
	default:
		s := vc.sortOf(et)
		if s == "TUPLE" || strings.Contains(x.Comment, "defer$stack") || strings.HasPrefix(vc.S.typeName(et), "$") {
			f.vals[x] = &Ptr{root: key, rootT: et, elemT: et}
			vc.cellSort[key] = SInt
			return
		}
		f.setCell(f.cur, key, s, vc.S.zero(et))
		vc.cellType[key] = et
		f.vals[x] = &Ptr{root: key, rootT: et, elemT: et}
	}
}

func (f *Frame) execStore(addr ssa.Value, v EV, pos token.Pos) {
	vc := f.vc
	p := f.asPtr(addr)
	if strings.Contains(p.root, "defer$stack") {
		return
	}
	if p.nilable != "" {
		f.safety("nil-deref", sx("distinct", p.nilable, "0"), pos)
	}
	var sv Val
	switch x := v.(type) {
	case Val:
		sv = x
	case *Closure:
		sv = x.id
		vc.P.closures[x.id.t] = x
	case *Ptr:
		if x.ref != "" && len(x.path) == 0 && strings.HasPrefix(x.root, "D:") {
			sv = Val{x.ref, SInt, nil}
		} else {
			vc.errf("%s: storing an interior pointer (unsupported)", vc.P.fnKey(f.fn))
			return
		}
	case Tuple:
		return
	default:
		return
	}
	if p.root == "OBJ" {
		f.storeStruct(f.cur, p.ref, p.rootT, sv)
		return
	}
	f.storePtr(f.cur, p, sv)
}

func (f *Frame) execUnOp(x *ssa.UnOp) {
	vc := f.vc
	switch x.Op {
	case token.MUL: // load
		p := f.asPtr(x.X)
		if strings.Contains(p.root, "defer$stack") {
			f.vals[x] = Val{"0", SInt, x.Type()}
			return
		}
		if p.nilable != "" {
			f.safety("nil-deref", sx("distinct", p.nilable, "0"), x.Pos())
		}
		var v Val
		if p.root == "OBJ" {
			v = f.loadStruct(f.cur, p.ref, p.rootT)
		} else {
			v = f.loadPtr(f.cur, p)
		}
		v.gt = x.Type()
		// well-typedness of loaded values (heap cells and havocked locals are untyped arrays)
		if wt := vc.S.wellTyped(v.t, x.Type(), 1); wt != "true" && len(v.t) < 400 {
			vc.assume(wt)
		}
		f.vals[x] = v
		f.assumeAlive(f.cur, v)
		if cl, ok := vc.P.closures[v.t]; ok {
			f.vals[x] = cl
		}
	case token.NOT:
		f.vals[x] = Val{not(f.sval(x.X).t), SBool, x.Type()}
	case token.SUB:
		v := f.sval(x.X)
		if v.s == SFP {
			f.vals[x] = Val{sx("fp.neg", v.t), SFP, x.Type()}
			return
		}
		if isBV(v.s) {
			f.vals[x] = Val{sx("bvneg", v.t), v.s, x.Type()}
			return
		}
		f.vals[x] = Val{wrapTo(sx("-", v.t), x.Type()), SInt, x.Type()}
	case token.ARROW: // channel receive
		vc.used["A-CHAN"] = true
		if chv, ok := f.val(x.X).(Val); ok {
			rc := f.getCell(f.cur, "ghost:recvd", "(Array Int Bool)")
			f.setCell(f.cur, "ghost:recvd", "(Array Int Bool)", sx("store", rc, chv.t, "true"))
		}
		if x.CommaOk {
			f.vals[x] = Tuple{vc.freshVal("recv", x.X.Type().Underlying().(*types.Chan).Elem()), vc.freshVal("recvok", types.Typ[types.Bool])}
		} else {
			f.vals[x] = vc.freshVal("recv", x.Type())
		}
	default:
		vc.errf("%s: unsupported unary operator %s", vc.P.fnKey(f.fn), x.Op)
		f.vals[x] = vc.freshVal("unop", x.Type())
	}
}

func (f *Frame) execPhi(x *ssa.Phi) {
	vc := f.vc
	b := x.Block()
	var t string
	first := true
	s := vc.sortOf(x.Type())
	for i := len(b.Preds) - 1; i >= 0; i-- {
		p := b.Preds[i]
		if f.back[[2]int{p.Index, b.Index}] {
			continue
		}
		if _, ok := f.out[p]; !ok {
			continue
		}
		ev := f.val(x.Edges[i])
		v, ok := ev.(Val)
		if !ok {
			if cl, ok := ev.(*Closure); ok {
				v = cl.id
			} else {
				vc.errf("%s: phi of non-scalar values", vc.P.fnKey(f.fn))
				continue
			}
		}
		if first {
			t = v.t
			first = false
		} else {
			t = ite(f.edgeCond(p, b), v.t, t)
		}
	}
	c := vc.fresh("phi_"+x.Name(), s)
	vc.assume(eq(c, t))
	f.vals[x] = Val{c, s, x.Type()}
}

func (f *Frame) execMakeInterface(x *ssa.MakeInterface) {
	vc := f.vc
	v := f.val(x.X)
	id := vc.S.typeID(x.X.Type())
	switch sv := v.(type) {
	case Val:
		if sv.s == SInt {
			f.vals[x] = Val{sx("mkI", fmt.Sprint(id), sv.t), SIface, x.Type()}
			return
		}
		// non-integer payloads (strings, byte slices, structs): boxed through an injective UF
		box := "box_" + mangle(sv.s)
		vc.declareFun(box, []Sort{sv.s}, SInt)
		vc.declareFun("un"+box, []Sort{SInt}, sv.s)
		vc.assume(eq(sx("un"+box, sx(box, sv.t)), sv.t))
		f.vals[x] = Val{sx("mkI", fmt.Sprint(id), sx(box, sv.t)), SIface, x.Type()}
	case *Closure:
		f.vals[x] = Val{sx("mkI", fmt.Sprint(id), sv.id.t), SIface, x.Type()}
	default:
		c := vc.fresh("iface", SInt)
		f.vals[x] = Val{sx("mkI", fmt.Sprint(id), c), SIface, x.Type()}
	}
}

func (f *Frame) execTypeAssert(x *ssa.TypeAssert) {
	vc := f.vc
	v := f.sval(x.X)
	var okT string
	var res Val
	if _, isIface := x.AssertedType.Underlying().(*types.Interface); isIface {
		// interface-to-interface: succeeds iff non-nil and implements; implementation is not modelled -> nondeterministic unless static type implies it
		okc := vc.fresh("implements", SBool)
		okT = and(sx("distinct", sx("i_typ", v.t), "0"), okc)
		if types.AssignableTo(x.X.Type(), x.AssertedType) {
			okT = sx("distinct", sx("i_typ", v.t), "0")
		}
		res = Val{v.t, SIface, x.AssertedType}
	} else {
		id := vc.S.typeID(x.AssertedType)
		okT = eq(sx("i_typ", v.t), fmt.Sprint(id))
		s := vc.sortOf(x.AssertedType)
		if s == SInt {
			res = Val{sx("i_val", v.t), SInt, x.AssertedType}
		} else {
			box := "box_" + mangle(s)
			vc.declareFun(box, []Sort{s}, SInt)
			vc.declareFun("un"+box, []Sort{SInt}, s)
			res = Val{sx("un"+box, sx("i_val", v.t)), s, x.AssertedType}
		}
	}
	if x.CommaOk {
		z := vc.S.zero(x.AssertedType)
		f.vals[x] = Tuple{Val{ite(okT, res.t, z), res.s, res.gt}, Val{okT, SBool, types.Typ[types.Bool]}}
		return
	}
	f.safety("type-assert", okT, x.Pos())
	f.vals[x] = res
}

func (f *Frame) execFieldAddr(x *ssa.FieldAddr) {
	vc := f.vc
	base := f.val(x.X)
	st, named := f.structOfPtr(x.X.Type())
	if st == nil {
		vc.errf("%s: FieldAddr on non-struct pointer", vc.P.fnKey(f.fn))
		return
	}
	ft := st.Field(x.Field).Type()
	switch b := base.(type) {
	case *Ptr:
		if b.root == "OBJ" {
			f.vals[x] = &Ptr{root: f.heapKey(named, st.Field(x.Field).Name()), ref: b.ref, rootT: ft, elemT: ft, nilable: b.nilable}
			return
		}
		np := *b
		np.path = append(append([]psel{}, b.path...), psel{kind: selField, field: x.Field, st: st, ssort: vc.sortOf(named)})
		np.elemT = ft
		f.vals[x] = &np
	case Val:
		f.vals[x] = &Ptr{root: f.heapKey(named, st.Field(x.Field).Name()), ref: b.t, rootT: ft, elemT: ft, nilable: b.t}
	default:
		vc.errf("%s: FieldAddr on unsupported base", vc.P.fnKey(f.fn))
	}
}

func (f *Frame) execIndexAddr(x *ssa.IndexAddr) {
	vc := f.vc
	idx := f.sval(x.Index)
	switch xt := x.X.Type().Underlying().(type) {
	case *types.Slice:
		sv := f.sval(x.X)
		et := xt.Elem()
		if sv.s == SBS {
			vc.errf("%s: indexing into a byte string (unsupported)", vc.P.fnKey(f.fn))
			f.vals[x] = &Ptr{root: "L:bogus", rootT: et, elemT: et}
			return
		}
		f.safety("index", and(sx("<=", "0", idx.t), sx("<", idx.t, sx("len_"+sv.s, sv.t))), x.Pos())
		var src *Ptr
		if u, ok := x.X.(*ssa.UnOp); ok && u.Op == token.MUL {
			src = f.asPtr(u.X)
		} else {
			src = &Ptr{root: "L:readonly:" + x.X.Name(), rootT: x.X.Type(), elemT: x.X.Type()}
			vc.cellSort[src.root] = sv.s
			f.cur.cells[src.root] = sv.t
		}
		f.vals[x] = &Ptr{slcSrc: src, slcVal: &sv, slcIdx: idx.t, elemT: et, rootT: et}
	case *types.Pointer: // pointer to array
		arr := xt.Elem().Underlying().(*types.Array)
		f.safety("index", and(sx("<=", "0", idx.t), sx("<", idx.t, fmt.Sprint(arr.Len()))), x.Pos())
		b := f.asPtr(x.X)
		np := *b
		np.path = append(append([]psel{}, b.path...), psel{kind: selIndex, idx: idx.t})
		np.elemT = arr.Elem()
		f.vals[x] = &np
	default:
		vc.errf("%s: IndexAddr on %s", vc.P.fnKey(f.fn), x.X.Type())
	}
}

func (f *Frame) execIndex(x *ssa.Index) {
	vc := f.vc
	v := f.sval(x.X)
	idx := f.sval(x.Index)
	switch xt := x.X.Type().Underlying().(type) {
	case *types.Array:
		f.safety("index", and(sx("<=", "0", idx.t), sx("<", idx.t, fmt.Sprint(xt.Len()))), x.Pos())
		f.vals[x] = Val{sx("select", v.t, idx.t), vc.sortOf(xt.Elem()), xt.Elem()}
	case *types.Basic: // string index
		if v.s == SStr {
			f.safety("index", and(sx("<=", "0", idx.t), sx("<", idx.t, sx("strlen", v.t))), x.Pos())
		}
		vc.abstractf("%s: string indexing: arbitrary byte", vc.P.fnKey(f.fn))
		f.vals[x] = vc.freshVal("strindex", x.Type())
	case *types.Slice:
		f.safety("index", and(sx("<=", "0", idx.t), sx("<", idx.t, sx("len_"+v.s, v.t))), x.Pos())
		f.vals[x] = Val{sx("select", sx("el_"+v.s, v.t), idx.t), vc.sortOf(xt.Elem()), xt.Elem()}
	default:
		vc.errf("%s: Index on %s", vc.P.fnKey(f.fn), x.X.Type())
	}
}

func (f *Frame) execMakeSlice(x *ssa.MakeSlice) {
	vc := f.vc
	n := f.sval(x.Len)
	s := vc.sortOf(x.Type())
	f.safety("make-len", sx("<=", "0", n.t), x.Pos())
	if s == SBS {
		c := vc.fresh("makebytes", SStr)
		vc.assume(eq(sx("strlen", c), n.t))
		f.vals[x] = Val{sx("mkBS", c, "false"), SBS, x.Type()}
		return
	}
	et := vc.S.elemOf[s]
	f.vals[x] = Val{fmt.Sprintf("(mk_%s false %s %s)", s, n.t, vc.S.constArr("Int", vc.sortOf(et), vc.S.zero(et))), s, x.Type()}
}

func (f *Frame) execSlice(x *ssa.Slice) {
	vc := f.vc
	// x.X is a slice, string or pointer to array
	switch xt := x.X.Type().Underlying().(type) {
	case *types.Pointer:
		arrT := xt.Elem().Underlying().(*types.Array)
		p := f.asPtr(x.X)
		av := f.loadPtr(f.cur, p)
		s := vc.sortOf(x.Type())
		lo, hi := "0", fmt.Sprint(arrT.Len())
		if x.Low != nil {
			lo = f.sval(x.Low).t
		}
		if x.High != nil {
			hi = f.sval(x.High).t
		}
		if lo != "0" {
			vc.errf("%s: array slicing with non-zero low bound unsupported", vc.P.fnKey(f.fn))
		}
		if x.High != nil {
			f.safety("slice-bounds", and(sx("<=", lo, hi), sx("<=", hi, fmt.Sprint(arrT.Len()))), x.Pos())
		}
		if s == SBS {
			// the length of arr[lo:hi] is exact (hi - lo), its content is arbitrary
			r := vc.freshVal("arrbytes", x.Type())
			vc.assume(eq(sx("strlen", sx("bs_c", r.t)), sx("-", hi, lo)))
			f.vals[x] = r
			return
		}
		f.vals[x] = Val{sx("mk_"+s, "false", hi, av.t), s, x.Type()}
	case *types.Slice:
		v := f.sval(x.X)
		if v.s == SBS {
			// bounds are an obligation, the length of the result is exact, its content is arbitrary
			n := sx("strlen", sx("bs_c", v.t))
			lo, hi := "0", n
			if x.Low != nil {
				lo = f.sval(x.Low).t
			}
			if x.High != nil {
				hi = f.sval(x.High).t
			}
			f.safety("slice-bounds", and(sx("<=", "0", lo), sx("<=", lo, hi), sx("<=", hi, n)), x.Pos())
			if x.Low == nil && x.High == nil {
				f.vals[x] = v
				return
			}
			vc.abstractf("%s: byte-string slicing: arbitrary sub-string of the given length", vc.P.fnKey(f.fn))
			r := vc.freshVal("sub", x.Type())
			vc.assume(eq(sx("strlen", sx("bs_c", r.t)), sx("-", hi, lo)))
			f.vals[x] = r
			return
		}
		lo, hi := "0", sx("len_"+v.s, v.t)
		if x.Low != nil {
			lo = f.sval(x.Low).t
		}
		if x.High != nil {
			hi = f.sval(x.High).t
		}
		f.safety("slice-bounds", and(sx("<=", "0", lo), sx("<=", lo, hi), sx("<=", hi, sx("len_"+v.s, v.t))), x.Pos())
		if x.High != nil {
			// s[:k] keeps the backing array: an append to the result may overwrite elements still visible through
			// other slice values. Slices are modelled as values (no aliasing), so a function that both shortens a slice
			// and appends is outside the subset.
			// Within one function the flow from a shortening to an append is followed (alias.go); across functions the old
			// blanket rule stays.
			vc.sliceShortened = vc.P.fset.Position(x.Pos()).String()
			vc.sliceShortenedFn = f.fn
			if f.shortOrig == nil {
				f.shortOrig = map[*ssa.Slice]Val{}
			}
			f.shortOrig[x] = v
			if vc.appendSeen != "" && vc.appendSeenFn != f.fn {
				vc.errf("%s: a slice is shortened (%s) and appended to (%s) in different functions: backing-array aliasing is outside the value model of slices", vc.P.fnKey(vc.fn), vc.sliceShortened, vc.appendSeen)
			}
		}
		if lo == "0" {
			f.vals[x] = Val{sx("mk_"+v.s, sx("nil_"+v.s, v.t), hi, sx("el_"+v.s, v.t)), v.s, x.Type()}
			return
		}
		// shifted copy: elements described by a fresh array with a quantified definition
		arr := vc.fresh("subslice", "(Array Int "+vc.sortOf(xt.Elem())+")")
		vc.assume(fmt.Sprintf("(forall ((k Int)) (! (= (select %s k) (select (el_%s %s) (+ k %s))) :pattern ((select %s k))))", arr, v.s, v.t, lo, arr))
		f.vals[x] = Val{sx("mk_"+v.s, "false", sx("-", hi, lo), arr), v.s, x.Type()}
	case *types.Basic:
		// string slicing: bounds are an obligation, the length of the result is exact, its content is arbitrary
		v := f.sval(x.X)
		if v.s != SStr {
			vc.errf("%s: Slice of %s unsupported", vc.P.fnKey(f.fn), x.X.Type())
			f.vals[x] = vc.freshVal("sub", x.Type())
			return
		}
		lo, hi := "0", sx("strlen", v.t)
		if x.Low != nil {
			lo = f.sval(x.Low).t
		}
		if x.High != nil {
			hi = f.sval(x.High).t
		}
		f.safety("slice-bounds", and(sx("<=", "0", lo), sx("<=", lo, hi), sx("<=", hi, sx("strlen", v.t))), x.Pos())
		r := vc.freshVal("substr", x.Type())
		vc.assume(eq(sx("strlen", r.t), sx("-", hi, lo)))
		if !(x.Low == nil && x.High == nil) {
			vc.abstractf("%s: string slicing: arbitrary content of the given length", vc.P.fnKey(f.fn))
		}
		f.vals[x] = r
	default:
		vc.errf("%s: Slice of %s unsupported", vc.P.fnKey(f.fn), x.X.Type())
		f.vals[x] = vc.freshVal("sub", x.Type())
	}
}

// ---------- maps ----------

func (f *Frame) mapValSort(t types.Type) Sort {
	m := t.Underlying().(*types.Map)
	ks, vs := f.vc.sortOf(m.Key()), f.vc.sortOf(m.Elem())
	name := "Map_" + mangle(ks) + "_" + mangle(vs)
	r := f.vc.S
	if !r.known[name] {
		r.known[name] = true
		r.decls = append(r.decls, fmt.Sprintf("(declare-datatypes ((%s 0)) (((mk_%s (dom_%s (Array %s Bool)) (val_%s (Array %s %s))))))", name, name, name, ks, name, ks, vs))
	}
	return name
}

func (f *Frame) emptyMap(t types.Type) string {
	m := t.Underlying().(*types.Map)
	ms := f.mapValSort(t)
	ks, vs := f.vc.sortOf(m.Key()), f.vc.sortOf(m.Elem())
	return fmt.Sprintf("(mk_%s ((as const (Array %s Bool)) false) %s)", ms, ks, f.vc.S.constArr(ks, vs, f.vc.S.zero(m.Elem())))
}

func (f *Frame) mapContent(st *State, ref string, t types.Type) (string, Sort) {
	ms := f.mapValSort(t)
	arr := f.getCell(st, f.mapKey(t), "(Array Int "+ms+")")
	return sx("select", arr, ref), ms
}

func (f *Frame) mapKeyTerm(k Val, t types.Type) string { return k.t }

// mapLen is len(m): the cardinality of the key set (an uninterpreted function of it), 0 for the nil map.
func (f *Frame) mapLen(st *State, ref string, t types.Type) string {
	vc := f.vc
	mt := t.Underlying().(*types.Map)
	mc, ms := f.mapContent(st, ref, t)
	fn := "card_" + ms
	ks := vc.sortOf(mt.Key())
	if !vc.declSet[fn] {
		vc.declareFun(fn, []Sort{"(Array " + ks + " Bool)"}, SInt)
		// finite key sets: the empty set has no element, adding a key counts once
		vc.assume(fmt.Sprintf("(= (%s %s) 0)", fn, vc.S.constArr(ks, "Bool", "false")))
		vc.assume(fmt.Sprintf("(forall ((d (Array %s Bool)) (k %s)) (! (= (%s (store d k true)) (+ (%s d) (ite (select d k) 0 1))) :pattern ((%s (store d k true)))))", ks, ks, fn, fn, fn))
	}
	c := sx(fn, sx("dom_"+ms, mc))
	vc.assume(sx("<=", "0", c))
	return ite(eq(ref, "0"), "0", c)
}

func (f *Frame) loopOfIter(it ssa.Value) *loopInfo {
	for _, li := range f.loops {
		if li.iterVal == it {
			return li
		}
	}
	return nil
}

func (f *Frame) execLookup(x *ssa.Lookup) {
	vc := f.vc
	if _, isStr := x.X.Type().Underlying().(*types.Basic); isStr {
		if sv, iv := f.sval(x.X), f.sval(x.Index); sv.s == SStr {
			f.safety("index", and(sx("<=", "0", iv.t), sx("<", iv.t, sx("strlen", sv.t))), x.Pos())
		}
		vc.abstractf("%s: string indexing: arbitrary byte", vc.P.fnKey(f.fn))
		f.vals[x] = vc.freshVal("strindex", x.Type())
		return
	}
	m := f.sval(x.X)
	k := f.sval(x.Index)
	mt := x.X.Type().Underlying().(*types.Map)
	mc, ms := f.mapContent(f.cur, m.t, x.X.Type())
	in := and(sx("distinct", m.t, "0"), sx("select", sx("dom_"+ms, mc), k.t))
	vs := vc.sortOf(mt.Elem())
	v := ite(in, sx("select", sx("val_"+ms, mc), k.t), vc.S.zero(mt.Elem()))
	c := vc.fresh("lookup", vs)
	vc.assume(eq(c, v))
	vc.assume(vc.S.wellTyped(c, mt.Elem(), 1))
	f.assumeAlive(f.cur, Val{c, vs, mt.Elem()})
	if x.CommaOk {
		f.vals[x] = Tuple{Val{c, vs, mt.Elem()}, Val{in, SBool, types.Typ[types.Bool]}}
	} else {
		f.vals[x] = Val{c, vs, mt.Elem()}
	}
}

func (f *Frame) execMapUpdate(x *ssa.MapUpdate) {
	m := f.sval(x.Map)
	k := f.sval(x.Key)
	v := f.sval(x.Value)
	f.safety("nil-map-store", sx("distinct", m.t, "0"), x.Pos())
	f.mapStore(f.cur, m.t, x.Map.Type(), k.t, v.t)
}

func (f *Frame) mapStore(st *State, ref string, t types.Type, k, v string) {
	mc, ms := f.mapContent(st, ref, t)
	key := f.mapKey(t)
	as := "(Array Int " + ms + ")"
	arr := f.getCell(st, key, as)
	nm := sx("mk_"+ms, sx("store", sx("dom_"+ms, mc), k, "true"), sx("store", sx("val_"+ms, mc), k, v))
	f.setCell(st, key, as, sx("store", arr, ref, nm))
}

func (f *Frame) mapDelete(st *State, ref string, t types.Type, k string) {
	mc, ms := f.mapContent(st, ref, t)
	key := f.mapKey(t)
	as := "(Array Int " + ms + ")"
	arr := f.getCell(st, key, as)
	nm := sx("mk_"+ms, sx("store", sx("dom_"+ms, mc), k, "false"), sx("val_"+ms, mc))
	f.setCell(st, key, as, ite(eq(ref, "0"), arr, sx("store", arr, ref, nm)))
}

// execNext models one step of `range` over a map: the Go specification allows any not-yet-produced key that is
// still present; termination when none is left. A ghost "visited" set (cell) tracks produced keys.
func (f *Frame) execNext(x *ssa.Next) {
	vc := f.vc
	if x.IsString {
		vc.errf("%s: range over string unsupported", vc.P.fnKey(f.fn))
		return
	}
	r, ok := x.Iter.(*ssa.Range)
	if !ok {
		vc.errf("%s: Next on non-range", vc.P.fnKey(f.fn))
		return
	}
	mt := r.X.Type().Underlying().(*types.Map)
	m := f.sval(r.X)
	ks, vs := vc.sortOf(mt.Key()), vc.sortOf(mt.Elem())
	visKey := "V:" + f.prefix + ":" + r.Name()
	visSort := "(Array " + ks + " Bool)"
	vis, have := f.cur.cells[visKey]
	if !have {
		vis = fmt.Sprintf("((as const %s) false)", visSort)
		vc.cellSort[visKey] = visSort
	}
	mc, ms := f.mapContent(f.cur, m.t, r.X.Type())
	k := vc.fresh("rangekey", ks)
	okc := vc.fresh("rangeok", SBool)
	dom := sx("dom_"+ms, mc)
	// ok => k in dom and not visited ; !ok => every key in dom is visited
	vc.assume(implies(okc, and(sx("distinct", m.t, "0"), sx("select", dom, k), not(sx("select", vis, k)))))
	vc.assume(implies(not(okc), or(eq(m.t, "0"), fmt.Sprintf("(forall ((rk %s)) (! (=> (select %s rk) (select %s rk)) :pattern ((select %s rk))))", ks, dom, vis, dom))))
	vc.assume(vc.S.wellTyped(k, mt.Key(), 1))
	f.cur.cells[visKey] = ite(okc, sx("store", vis, k, "true"), vis)
	// cardinality: a map that is not written during the iteration produces exactly as many keys as it had when the
	// iteration started (Go spec, "for statements with range clause")
	if cnt, ok := f.cur.cells[visKey+"#n"]; ok {
		if n0, ok := f.cur.cells[visKey+"#n0"]; ok {
			if li := f.loopOfIter(x.Iter); li != nil && li.modSet != nil && !li.modSet[f.mapKey(r.X.Type())] {
				vc.assume(implies(okc, sx("<", cnt, n0)))
				vc.assume(implies(not(okc), eq(cnt, n0)))
			}
		}
		f.cur.cells[visKey+"#n"] = ite(okc, sx("+", cnt, "1"), cnt)
	}
	v := vc.fresh("rangeval", vs)
	vc.assume(implies(okc, eq(v, sx("select", sx("val_"+ms, mc), k))))
	vc.assume(vc.S.wellTyped(v, mt.Elem(), 1))
	f.vals[x] = Tuple{Val{okc, SBool, types.Typ[types.Bool]}, Val{k, ks, mt.Key()}, Val{v, vs, mt.Elem()}}
}

func (f *Frame) execSelect(x *ssa.Select) {
	vc := f.vc
	vc.used["A-CHAN"] = true
	n := len(x.States)
	idx := vc.fresh("select_idx", SInt)
	lo := "0"
	if !x.Blocking {
		lo = "(- 1)"
	}
	vc.assume(and(sx("<=", lo, idx), sx("<", idx, fmt.Sprint(n))))
	tup := Tuple{Val{idx, SInt, types.Typ[types.Int]}, vc.freshVal("recvok", types.Typ[types.Bool])}
	closed := f.getCell(f.cur, "ghost:closed", "(Array Int Bool)")
	nsent := f.getCell(f.cur, "ghost:nsent", SInt)
	sentTerm := nsent
	var anyClosedRecv []string
	lastSentNew, lastSentOld := map[string]string{}, map[string]string{}
	recvd := f.getCell(f.cur, "ghost:recvd", "(Array Int Bool)")
	recvdTerm := recvd
	for i, s := range x.States {
		ch := f.sval(s.Chan)
		if s.Dir == types.RecvOnly {
			recvdTerm = ite(eq(idx, fmt.Sprint(i)), sx("store", recvd, ch.t, "true"), recvdTerm)
			et := s.Chan.Type().Underlying().(*types.Chan).Elem()
			tup = append(tup, vc.freshVal("recv", et))
			// a receive from a closed channel is always ready
			anyClosedRecv = append(anyClosedRecv, and(sx("distinct", ch.t, "0"), sx("select", closed, ch.t)))
		} else {
			// choosing a send case performs the send (ghost counter of sends)
			sentTerm = ite(eq(idx, fmt.Sprint(i)), sx("+", nsent, "1"), sentTerm)
			// ... and hands over exactly the value of that case (ghost: last value sent per channel; pointer-like values only)
			if g := vc.P.lastSentGhost(s.Chan.Type()); g != "" {
				if sv, ok := evAsVal(f.val(s.Send)); ok && sv.s == SInt {
					cur := f.getCell(f.cur, g, "(Array Int Int)")
					if _, seen := lastSentNew[g]; !seen {
						lastSentNew[g] = cur
						lastSentOld[g] = cur
					}
					lastSentNew[g] = ite(eq(idx, fmt.Sprint(i)), sx("store", lastSentOld[g], ch.t, sv.t), lastSentNew[g])
				}
			}
		}
	}
	if !x.Blocking && len(anyClosedRecv) > 0 {
		// Go runs `default` only when no case is ready
		vc.assume(implies(or(anyClosedRecv...), sx("distinct", idx, "(- 1)")))
	}
	f.setCell(f.cur, "ghost:nsent", SInt, sentTerm)
	for g, t := range lastSentNew {
		f.setCell(f.cur, g, "(Array Int Int)", t)
	}
	f.setCell(f.cur, "ghost:recvd", "(Array Int Bool)", recvdTerm)
	f.vals[x] = tup
}

// lastSentGhost: the ghost cell recording the last value sent on channels of this element type, if the prelude declares
// one (`;; ghost lastSent_<ElemTypeName> (Array Int Int)`); only channels of pointers to named types are recorded.
func (P *Program) lastSentGhost(chT types.Type) string {
	ch, ok := chT.Underlying().(*types.Chan)
	if !ok {
		return ""
	}
	pt, ok := ch.Elem().Underlying().(*types.Pointer)
	if !ok {
		return ""
	}
	nt, ok := pt.Elem().(*types.Named)
	if !ok {
		return ""
	}
	name := "lastSent_" + nt.Obj().Name()
	if _, ok := P.ghosts[name]; !ok {
		return ""
	}
	return "ghost:" + name
}

var _ = strings.Contains
