package main

// Loading /repo (current working tree), contracts, spec prelude; running the VCs of a function.

import (
	"strconv"
	"fmt"
	"go/token"
	"go/types"
	"os"
	"path/filepath"
	"regexp"
	"sort"
	"strings"
	"sync"
	"time"

	"golang.org/x/tools/go/packages"
	"golang.org/x/tools/go/ssa"
	"golang.org/x/tools/go/ssa/ssautil"
)

type specFunc struct {
	args []Sort
	res  Sort
	gt   types.Type
}

type section struct {
	name     string
	always   bool
	text     string
	provides []string
}

type Program struct {
	prog      *ssa.Program
	pkgs      []*packages.Package
	spkgs     []*ssa.Package
	fset      *token.FileSet
	repoPkgs  map[string]bool
	pkgByName map[string]*types.Package
	contracts *ContractSet
	sorts     *SortReg
	specFuncs map[string]specFunc
	specConsts map[string]Sort
	sections  []*section
	ghosts    map[string]Sort
	needSym   map[string]bool
	needSection map[string]bool
	closures  map[string]*Closure
	scanning  map[*ssa.Function]bool
	inlining  map[*ssa.Function]bool
	maxInline int
	defaultSafety string
	repoDir   string
	verifDir  string
	fnByKey   map[string]*ssa.Function
	needTypes []string
	mu        sync.Mutex
	shortCache map[*ssa.Function]*shortInfo
	corpus *string
	trackedMemo map[string]bool
	untrackedMemo map[*ssa.Function][]string
	baseParams map[string][][2]string
}

func (P *Program) fnKey(fn *ssa.Function) string {
	if fn == nil {
		return "<nil>"
	}
	if fn.Signature != nil && fn.Signature.Recv() != nil {
		rt := fn.Signature.Recv().Type()
		return "(" + P.sorts.typeName(rt) + ")." + fn.Name()
	}
	if fn.Parent() != nil {
		return P.fnKey(fn.Parent()) + "$" + strings.TrimPrefix(fn.Name(), fn.Parent().Name()+"$")
	}
	if fn.Pkg != nil {
		return fn.Pkg.Pkg.Name() + "." + fn.Name()
	}
	// synthetic wrappers / functions from export data
	if fn.Object() != nil && fn.Object().Pkg() != nil {
		return fn.Object().Pkg().Name() + "." + fn.Name()
	}
	return fn.String()
}

func (P *Program) allTypesPkgs() []*types.Package {
	var out []*types.Package
	seen := map[*types.Package]bool{}
	var visit func(p *types.Package)
	visit = func(p *types.Package) {
		if seen[p] {
			return
		}
		seen[p] = true
		out = append(out, p)
		for _, i := range p.Imports() {
			visit(i)
		}
	}
	for _, p := range P.pkgs {
		if p.Types != nil {
			visit(p.Types)
		}
	}
	return out
}

func loadProgram(repoDir, verifDir string) (*Program, error) {
	P := &Program{repoDir: repoDir, verifDir: verifDir, repoPkgs: map[string]bool{}, pkgByName: map[string]*types.Package{}, sorts: newSortReg(),
		specFuncs: map[string]specFunc{}, specConsts: map[string]Sort{}, ghosts: map[string]Sort{}, needSym: map[string]bool{}, needSection: map[string]bool{},
		closures: map[string]*Closure{}, scanning: map[*ssa.Function]bool{}, inlining: map[*ssa.Function]bool{}, maxInline: 6, defaultSafety: "default",
		fnByKey: map[string]*ssa.Function{}}
	cfg := &packages.Config{
		Mode: packages.NeedName | packages.NeedFiles | packages.NeedCompiledGoFiles | packages.NeedImports | packages.NeedTypes |
			packages.NeedTypesSizes | packages.NeedSyntax | packages.NeedTypesInfo | packages.NeedExportFile | packages.NeedModule,
		Dir:        repoDir,
		BuildFlags: []string{"-tags=verif"},
		Env:        append(os.Environ(), "GOFLAGS=-mod=mod", "GOPROXY=off", "GOSUMDB=off", "GOTOOLCHAIN=local"),
	}
	pkgs, err := packages.Load(cfg, "./...")
	if err != nil {
		return nil, err
	}
	var errs []string
	var keep []*packages.Package
	for _, p := range pkgs {
		// test helper packages and the proof-of-concept are not library code
		for _, e := range p.Errors {
			errs = append(errs, p.PkgPath+": "+e.Error())
		}
		keep = append(keep, p)
	}
	if len(errs) > 0 {
		return nil, fmt.Errorf("package load errors (the tree does not compile?):\n%s", strings.Join(errs, "\n"))
	}
	P.pkgs = keep
	prog, spkgs := ssautil.Packages(keep, ssa.NaiveForm|ssa.GlobalDebug)
	P.prog = prog
	P.spkgs = spkgs
	P.fset = prog.Fset
	for _, sp := range spkgs {
		if sp != nil {
			sp.Build()
		}
	}
	for i, p := range keep {
		P.repoPkgs[p.PkgPath] = true
		if _, dup := P.pkgByName[p.Types.Name()]; !dup || !strings.Contains(p.PkgPath, "/test") {
			P.pkgByName[p.Types.Name()] = p.Types
		}
		if spkgs[i] == nil {
			continue
		}
		for _, m := range spkgs[i].Members {
			switch x := m.(type) {
			case *ssa.Function:
				P.fnByKey[P.fnKey(x)] = x
				var regAnon func(f *ssa.Function)
				regAnon = func(f *ssa.Function) {
					for _, an := range f.AnonFuncs {
						P.fnByKey[P.fnKey(an)] = an
						regAnon(an)
					}
				}
				regAnon(x)
			case *ssa.Type:
				for _, t := range []types.Type{x.Type(), types.NewPointer(x.Type())} {
					ms := prog.MethodSets.MethodSet(t)
					for j := 0; j < ms.Len(); j++ {
						if fn := prog.MethodValue(ms.At(j)); fn != nil && fn.Pkg == spkgs[i] {
							P.fnByKey[P.fnKey(fn)] = fn
							var regAnon func(f *ssa.Function)
							regAnon = func(f *ssa.Function) {
								for _, an := range f.AnonFuncs {
									P.fnByKey[P.fnKey(an)] = an
									regAnon(an)
								}
							}
							regAnon(fn)
						}
					}
				}
			}
		}
	}
	// contracts: every package directory of the repo + /verif/specs
	var dirs []string
	dirPkg := map[string]string{}
	for _, p := range keep {
		if len(p.GoFiles) > 0 {
			d := filepath.Dir(p.GoFiles[0])
			dirs = append(dirs, d)
			dirPkg[d] = p.Types.Name()
		}
	}
	specDir := filepath.Join(verifDir, "specs")
	dirs = append(dirs, specDir)
	dirPkg[specDir] = "spec"
	sort.Strings(dirs)
	P.contracts, err = loadContracts(dirs, func(d string) string { return dirPkg[d] })
	if err != nil {
		return nil, err
	}
	if err := P.loadPrelude(specDir); err != nil {
		return nil, err
	}
	return P, nil
}

var specLine = regexp.MustCompile(`^;;\s*spec\s+(\S+)\s+\((.*)\)\s+(\S.*)$`)

func (P *Program) loadPrelude(dir string) error {
	files, _ := filepath.Glob(filepath.Join(dir, "*.smt2"))
	sort.Strings(files)
	for _, file := range files {
		data, err := os.ReadFile(file)
		if err != nil {
			return err
		}
		var cur *section
		for _, l := range strings.Split(string(data), "\n") {
			tl := strings.TrimSpace(l)
			if strings.HasPrefix(tl, ";; section ") {
				fs := strings.Fields(tl[len(";; section "):])
				cur = &section{name: fs[0]}
				for _, x := range fs[1:] {
					if x == "always" {
						cur.always = true
					}
				}
				P.sections = append(P.sections, cur)
				continue
			}
			if m := specLine.FindStringSubmatch(tl); m != nil {
				resS := strings.TrimSpace(m[3])
				var gt types.Type
				if i := strings.Index(resS, " : "); i > 0 {
					gt = P.parseTypeExpr(strings.TrimSpace(resS[i+3:]))
					if gt == nil {
						return fmt.Errorf("prelude: cannot resolve Go type %q of spec %s", resS[i+3:], m[1])
					}
					resS = strings.TrimSpace(resS[:i])
				}
				sf := specFunc{res: resS, gt: gt}
				sf.args = splitSorts(m[2])
				P.specFuncs[m[1]] = sf
				if cur != nil {
					cur.provides = append(cur.provides, m[1])
				}
				continue
			}
			if strings.HasPrefix(tl, ";; const ") {
				fs := strings.Fields(tl[len(";; const "):])
				P.specConsts[fs[0]] = strings.Join(fs[1:], " ")
				if cur != nil {
					cur.provides = append(cur.provides, fs[0])
				}
				continue
			}
			if strings.HasPrefix(tl, ";; provides ") {
				if cur != nil {
					cur.provides = append(cur.provides, strings.Fields(tl[len(";; provides "):])...)
				}
				continue
			}
			if strings.HasPrefix(tl, ";; needs-type ") {
				P.needTypes = append(P.needTypes, strings.TrimSpace(tl[len(";; needs-type "):]))
				continue
			}
			if strings.HasPrefix(tl, ";; ghost ") {
				fs := strings.Fields(tl[len(";; ghost "):])
				P.ghosts[fs[0]] = strings.Join(fs[1:], " ")
				continue
			}
			if cur == nil {
				cur = &section{name: filepath.Base(file), always: true}
				P.sections = append(P.sections, cur)
			}
			if tl != "" && !strings.HasPrefix(tl, ";") {
				cur.text += l + "\n"
			}
		}
	}
	// force registration of the sorts the prelude talks about
	for _, nt := range P.needTypes {
		if t := P.parseTypeExpr(nt); t != nil {
			P.sorts.sortOf(t)
		} else {
			return fmt.Errorf("prelude: cannot resolve needs-type %q", nt)
		}
	}
	return nil
}

func splitSorts(s string) []Sort {
	var out []Sort
	d := 0
	cur := ""
	for _, c := range s {
		switch {
		case c == '(':
			d++
			cur += string(c)
		case c == ')':
			d--
			cur += string(c)
		case c == ' ' && d == 0:
			if cur != "" {
				out = append(out, cur)
				cur = ""
			}
		default:
			cur += string(c)
		}
	}
	if cur != "" {
		out = append(out, cur)
	}
	return out
}

// parseTypeExpr: "[]pkg.T", "*pkg.T", "pkg.T", "map[K]V" (K,V simple).
func (P *Program) parseTypeExpr(s string) types.Type {
	s = strings.TrimSpace(s)
	switch {
	case strings.HasPrefix(s, "[]"):
		if e := P.parseTypeExpr(s[2:]); e != nil {
			return types.NewSlice(e)
		}
		return nil
	case strings.HasPrefix(s, "*"):
		if e := P.parseTypeExpr(s[1:]); e != nil {
			return types.NewPointer(e)
		}
		return nil
	}
	for _, b := range types.Typ {
		if b.Name() == s {
			return b
		}
	}
	if i := strings.Index(s, "."); i > 0 {
		for _, p := range P.allTypesPkgs() {
			if p.Name() == s[:i] {
				if o, ok := p.Scope().Lookup(s[i+1:]).(*types.TypeName); ok {
					return o.Type()
				}
			}
		}
	}
	return nil
}

// ---------- query assembly ----------

const baseHeader = `(set-logic ALL)
(set-option :produce-models true)
`

func (P *Program) prelude(body string, S *SortReg) string { return P.preludeEx(body, S, nil) }

func (P *Program) preludeEx(body string, S *SortReg, exclude []string) string {
	var sb strings.Builder
	included := map[*section]bool{}
	excluded := map[string]bool{}
	for _, e := range exclude {
		excluded[e] = true
	}
	text := body
	changed := true
	for changed {
		changed = false
		for _, s := range P.sections {
			if included[s] || excluded[s.name] {
				continue
			}
			need := s.always
			if !need {
				for _, p := range s.provides {
					if containsSym(text, p) {
						need = true
						break
					}
				}
			}
			if need {
				included[s] = true
				text += s.text
				changed = true
			}
		}
	}
	// base sections first (always), then datatypes, then the others in file order
	for _, s := range P.sections {
		if included[s] && s.always {
			sb.WriteString(s.text)
		}
	}
	for _, d := range S.decls {
		sb.WriteString(d + "\n")
	}
	for _, s := range P.sections {
		if included[s] && !s.always {
			sb.WriteString(s.text)
		}
	}
	return sb.String()
}

func containsSym(text, sym string) bool {
	i := 0
	for {
		j := strings.Index(text[i:], sym)
		if j < 0 {
			return false
		}
		k := i + j
		before := k == 0 || strings.ContainsRune(" ()\n\t", rune(text[k-1]))
		after := k+len(sym) == len(text) || strings.ContainsRune(" ()\n\t", rune(text[k+len(sym)]))
		if before && after {
			return true
		}
		i = k + len(sym)
	}
}

func (o *Obligation) query(P *Program) string {
	vc := o.vc
	var body strings.Builder
	for _, a := range vc.asserts[:o.NAssert] {
		body.WriteString("(assert " + a + ")\n")
	}
	body.WriteString("(assert " + o.Reach + ")\n")
	body.WriteString("(assert (not " + o.Goal + "))\n")
	b := body.String()
	var sb strings.Builder
	sb.WriteString(baseHeader)
	sb.WriteString(P.prelude(b+strings.Join(vc.decls, "\n"), vc.S))
	// only declarations that are mentioned (keeps queries small)
	for _, d := range vc.decls {
		name := declName(d)
		if strings.Contains(b, name) {
			sb.WriteString(d + "\n")
		}
	}
	sb.WriteString(b)
	sb.WriteString("(check-sat)\n(get-model)\n")
	return sb.String()
}

func declName(d string) string {
	// (declare-const NAME S) | (declare-fun NAME (..) S)
	fs := strings.SplitN(d, " ", 3)
	if len(fs) < 2 {
		return d
	}
	name := fs[1]
	if strings.HasPrefix(name, "|") {
		if j := strings.Index(d[len(fs[0])+2:], "|"); j >= 0 {
			return d[len(fs[0])+1 : len(fs[0])+3+j]
		}
	}
	return name
}

// ---------- verifying one function ----------

type FuncResult struct {
	Key      string
	Pos      string
	Obls     []*Obligation
	Errs     []string
	Used     []string
	Inlined  []string
	Secs     float64
	Contract *Contract
}

func (P *Program) newVC(fn *ssa.Function, con *Contract) *VC {
	S := P.sorts
	if con != nil && con.Mode == "bv" {
		S = newSortReg()
		S.bv = true
	}
	return &VC{P: P, S: S, fn: fn, con: con, declSet: map[string]bool{}, used: map[string]bool{}, inlined: map[string]bool{},
		cellSort: map[string]Sort{}, cellType: map[string]types.Type{}, callOrd: map[string]int{}, ufDecl: map[string]bool{}, iterField: map[string]string{}}
}

// genVC builds the obligations of one function under contract.
func (P *Program) genVC(con *Contract) (*FuncResult, *VC) {
	fr := &FuncResult{Key: con.Key, Contract: con}
	fn := P.fnByKey[con.Key]
	if fn == nil {
		fr.Errs = append(fr.Errs, fmt.Sprintf("contract names function %s which does not exist (%s:%d)", con.Key, con.File, con.Line))
		return fr, nil
	}
	pos := P.fset.Position(fn.Pos())
	fr.Pos = fmt.Sprintf("%s:%d", strings.TrimPrefix(pos.Filename, "/repo/"), pos.Line)
	vc := P.newVC(fn, con)
	for _, l := range con.Loops {
		l.Used = false
	}
	for _, s := range con.Sites {
		s.Used = false
	}
	f := vc.newFrame(fn, 0, con)
	vc.topFrame = f
	st := &State{cells: map[string]string{}, cellGen: map[string]int{}}
	var args []EV
	for _, p := range fn.Params {
		v := vc.freshVal("p_"+p.Name(), p.Type())
		// parameter constants get readable names
		args = append(args, v)
	}
	var fvs []EV
	for _, fv := range fn.FreeVars {
		fvs = append(fvs, vc.freshVal("fv_"+fv.Name(), fv.Type()))
	}
	for i, p := range fn.Params {
		f.vals[p] = args[i]
	}
	for i, fv := range fn.FreeVars {
		f.vals[fv] = fvs[i]
	}
	f.cur = st
	for _, a := range args {
		if v, ok := a.(Val); ok {
			f.assumeAlive(st, v)
		}
	}
	for _, a := range fvs {
		if v, ok := a.(Val); ok {
			f.assumeAlive(st, v)
		}
	}
	f.entry = st.clone()
	f.curReach = "true"
	// requires
	env := f.ownEnv(st, st, nil, nil)
	env.locals = nil
	var reqs []string
	for _, r := range con.Requires {
		t := env.evalBool(r.E)
		reqs = append(reqs, t)
		vc.assume(t)
	}
	for _, r := range con.ObjInv {
		vc.assume(env.evalBool(r.E))
	}
	for i, r := range con.EntryAssumes {
		vc.assume(env.evalBool(r.E))
		vc.used["ENTRY-ASSUMPTION:"+con.Key+"["+clauseName(r, i)+"] "+r.Src] = true
	}
	nReq := len(vc.asserts)
	f.run(args, fvs, st, "true")
	res, est, er := f.exit()
	if est != nil {
		f.cur, f.curReach = est, er
		// postconditions are evaluated at every return site (no ite-merged exit state in the goal)
		perReturn := func(e Clause) string {
			var parts []string
			for _, r := range f.rets {
				t := f.evalClause(e, r.st, f.entry, r.vals, nil)
				parts = append(parts, implies(r.reach, t))
			}
			return and(parts...)
		}
		_ = res
		f.curReach = "true"
		for i, e := range con.Ensures {
			if os.Getenv("GOVC_SPLIT_RETURNS") != "" {
				// diagnosis only: one obligation per return site
				for k, r := range f.rets {
					t := implies(r.reach, f.evalClause(e, r.st, f.entry, r.vals, nil))
					vc.addObl(f, "post", fmt.Sprintf("ensures[%s]@ret%d:%s", clauseName(e, i), k, P.fset.Position(r.pos)), t, e.Src, fn.Pos())
				}
				continue
			}
			t := perReturn(e)
			o := vc.addObl(f, "post", fmt.Sprintf("ensures[%s]", clauseName(e, i)), t, e.Src, fn.Pos())
			_ = o
		}
		for i, e := range con.ObjInv {
			t := perReturn(e)
			vc.addObl(f, "post", fmt.Sprintf("objinv[%s]", clauseName(e, i)), t, e.Src, fn.Pos())
		}
		for i, e := range con.MustFail {
			t := perReturn(e)
			o := vc.addObl(f, "must_fail", fmt.Sprintf("must_fail[%s]", clauseName(e, i)), t, e.Src, fn.Pos())
			o.MustFail = true
		}
		f.curReach = er
	} else if len(con.Ensures) > 0 {
		vc.errf("%s: no return is reachable", con.Key)
	}
	// frame: a heap cell written by the body but not listed in `modifies` must be unchanged on every object that
	// was alive at entry (it may only have been written on objects allocated by this call); callers rely on that.
	if est != nil {
		declared := map[string]bool{}
		for _, m := range P.effMods(con) {
			declared[P.modKey(m)] = true
		}
		var keys []string
		for k := range est.cells {
			keys = append(keys, k)
		}
		sort.Strings(keys)
		aliveEntry := f.getCell(f.entry, "ghost:alive", aliveSort)
		for _, k := range keys {
			if strings.HasPrefix(k, "L:") || strings.HasPrefix(k, "V:") || k == "ghost:alive" || k == "ghost:lastCtxErrNil" || k == "ghost:recvd" || declared[k] || con.ModAll {
				continue
			}
			if P.untrackedKey(k) {
				// a field no contract mentions (alias.go): written through an interface or function value the static
				// scan did not follow; still not a frame obligation
				vc.used["UNTRACKED-FIELD:"+k] = true
				continue
			}
			srt := vc.cellSort[k]
			entryV := f.getCell(f.entry, k, srt)
			exitV := est.cells[k]
			if entryV == exitV {
				continue
			}
			var goal string
			if strings.HasPrefix(srt, "(Array Int ") && (strings.HasPrefix(k, "H:") || strings.HasPrefix(k, "D:") || strings.HasPrefix(k, "M:") || k == "ghost:iterpos") {
				goal = fmt.Sprintf("(forall ((fr Int)) (=> (select %s fr) (= (select %s fr) (select %s fr))))", aliveEntry, exitV, entryV)
			} else {
				goal = eq(exitV, entryV)
			}
			f.cur, f.curReach = est, er
			fo := vc.addObl(f, "frame", fmt.Sprintf("frame[%s].only-fresh-objects-written", k), goal, "cell "+k+" is not in `modifies`: it must be unchanged on objects alive at entry", fn.Pos())
			if strings.HasPrefix(goal, "(forall ((fr Int))") && fo.vc != nil {
				// ground witnesses: the same goal at the receiver and at every pointer-like parameter
				for _, prm := range fn.Params {
					pv, ok := evAsVal(f.vals[prm])
					if !ok || pv.s != SInt {
						continue
					}
					if _, isPtr := prm.Type().Underlying().(*types.Pointer); !isPtr {
						continue
					}
					g := fmt.Sprintf("(=> (select %s %s) (= (select %s %s) (select %s %s)))", aliveEntry, pv.t, exitV, pv.t, entryV, pv.t)
					fo.Witnesses = append(fo.Witnesses, &Obligation{Label: fo.Label + ".at[" + prm.Name() + "]", Kind: "witness", Fn: fo.Fn, Goal: g, Reach: fo.Reach, NAssert: fo.NAssert, Src: fo.Src, vc: vc, Pos: fo.Pos})
				}
			}
		}
	}
	// vacuity: requires + every assumed callee postcondition / invariant must not be contradictory at the exit
	_ = nReq
	if est != nil {
		o := &Obligation{Label: "vacuity.exit-reachable", Kind: "cover", Fn: con.Key, Goal: "false", Reach: er, NAssert: len(vc.asserts), vc: vc, Src: "assumptions on the path to the exit are not contradictory", MustFail: true}
		vc.obls = append(vc.obls, o)
	}
	for _, l := range con.Loops {
		if !l.Used {
			vc.errf("%s: loop clause %q matches no loop", con.Key, l.Key)
		}
	}
	for _, s := range con.Sites {
		if !s.Used {
			vc.errf("%s: site assertion for call %q matches no call site", con.Key, s.Callee)
		}
	}
	fr.Obls = vc.obls
	fr.Errs = vc.errs
	for k := range vc.used {
		fr.Used = append(fr.Used, k)
	}
	sort.Strings(fr.Used)
	for k := range vc.inlined {
		fr.Inlined = append(fr.Inlined, k)
	}
	sort.Strings(fr.Inlined)
	for _, o := range fr.Obls {
		o.Fn = con.Key
		o.Props = con.Props
	}
	return fr, vc
}

// discharge runs all obligations (in parallel) and classifies them.
func (P *Program) discharge(obls []*Obligation, secs int, thorough bool, par int) {
	if v, err := strconv.Atoi(os.Getenv("GOVC_PAR")); err == nil && v > 0 && v < par {
		par = v // several checks side by side (seed runs): fewer queries in flight per check
	}
	sem := make(chan struct{}, par)
	var wg sync.WaitGroup
	for _, o := range obls {
		wg.Add(1)
		go func(o *Obligation) {
			defer wg.Done()
			sem <- struct{}{}
			defer func() { <-sem }()
			var q string
			if o.vc != nil {
				q = o.query(P)
			} else {
				q = o.Goal // lemma: Goal holds the full query text
			}
			if len(q) > 3_000_000 {
				o.Res = SolverResult{Status: "error", Raw: fmt.Sprintf("VC too large (%d bytes)", len(q))}
				return
			}
			t0 := time.Now()
			tl := secs
			if o.MustFail && tl > 3 {
				tl = 3 // a contradiction among assumptions shows up at once; "unknown" is the expected answer
			}
			o.Res = runSolvers(q, tl, thorough && !o.MustFail, nil)
			if o.Res.Secs == 0 {
				o.Res.Secs = time.Since(t0).Seconds()
			}
			if dumpDir != "" {
				os.MkdirAll(dumpDir, 0o755)
				os.WriteFile(filepath.Join(dumpDir, mangle(o.Fn+"."+o.Label)+".smt2"), []byte(q), 0o644)
			}
		}(o)
	}
	wg.Wait()
}

var dumpDir = ""
