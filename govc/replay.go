package main

// Replay of solver counterexamples on the real code (DESIGN §2.13): the "direct call" family.
// For a failed obligation of a function whose parameters are scalars, byte strings, slices and plain structs, the
// model is concretised (two extra solver runs with get-value), a Go test is generated that calls the REAL function
// with those inputs inside its own package (go test -overlay, nothing is written into /repo) and evaluates the
// failed clause with math/big arithmetic. Only a replay that reproduces the failure counts as confirmed.

import (
	"bytes"
	"encoding/json"
	"fmt"
	"go/types"
	"math/big"
	"os"
	"os/exec"
	"path/filepath"
	"sort"
	"strings"
	"time"
)

type rleaf struct {
	name string // gv_N
	term string
	sort Sort
}

type rgen struct {
	P       *Program
	vc      *VC
	leaves  []rleaf
	vals    map[string]string // gv name -> value text
	imports map[string]string // path -> name
	pkg     *types.Package
	strIDs  map[string]int
	fail    string
	usedSpec map[string]bool
}

func (g *rgen) leaf(term string, s Sort) string {
	for _, l := range g.leaves {
		if l.term == term {
			return l.name
		}
	}
	n := fmt.Sprintf("gv_%d", len(g.leaves))
	g.leaves = append(g.leaves, rleaf{n, term, s})
	return n
}

func (g *rgen) qual(p *types.Package) string {
	if p == g.pkg {
		return ""
	}
	g.imports[p.Path()] = p.Name()
	return p.Name()
}

func (g *rgen) typeStr(t types.Type) string { return types.TypeString(t, g.qual) }

// runGetValue appends definitions of the leaves to the failed query and asks the deciding solver for their values.
func (g *rgen) runGetValue(o *Obligation, extra []string) bool {
	q := o.query(g.P)
	q = strings.Replace(q, "(check-sat)\n(get-model)\n", "", 1)
	var sb strings.Builder
	sb.WriteString(q)
	var names []string
	for _, l := range g.leaves {
		sb.WriteString(fmt.Sprintf("(declare-const %s %s)\n(assert (= %s %s))\n", l.name, l.sort, l.name, l.term))
		names = append(names, l.name)
	}
	for _, e := range extra {
		sb.WriteString("(assert " + e + ")\n")
	}
	sb.WriteString("(check-sat)\n(get-value (" + strings.Join(names, " ") + "))\n")
	res := runSolvers(sb.String(), 60, false, []string{o.Res.Solver})
	if res.Status != "sat" {
		g.fail = "model concretisation query answered " + res.Status
		return false
	}
	toks := tokenizeSexp(res.Raw)
	// find "((gv_0 v) (gv_1 v) ...)" : scan for "( gv_N"
	g.vals = map[string]string{}
	for i := 0; i+1 < len(toks); i++ {
		if toks[i] == "(" && strings.HasPrefix(toks[i+1], "gv_") {
			j := i + 2
			k := skipSexp(toks, j)
			g.vals[toks[i+1]] = strings.Join(toks[j:k], " ")
			i = k
		}
	}
	return len(g.vals) > 0
}

func parseIntVal(v string) (*big.Int, bool) {
	v = strings.TrimSpace(v)
	neg := false
	if strings.HasPrefix(v, "( - ") {
		neg = true
		v = strings.TrimSuffix(strings.TrimPrefix(v, "( - "), " )")
	}
	n := new(big.Int)
	switch {
	case strings.HasPrefix(v, "#x"):
		if _, ok := n.SetString(v[2:], 16); !ok {
			return nil, false
		}
	case strings.HasPrefix(v, "#b"):
		if _, ok := n.SetString(v[2:], 2); !ok {
			return nil, false
		}
	case strings.HasPrefix(v, "( _ bv"):
		fs := strings.Fields(v)
		if _, ok := n.SetString(strings.TrimPrefix(fs[2], "bv"), 10); !ok {
			return nil, false
		}
	default:
		if _, ok := n.SetString(v, 10); !ok {
			return nil, false
		}
	}
	if neg {
		n.Neg(n)
	}
	return n, true
}

// literal builds a Go literal of type t for SMT term x, registering the leaves it needs. Called twice: first pass
// (vals == nil) only collects leaves; second pass produces text.
func (g *rgen) literal(x string, t types.Type, depth int) string {
	S := g.vc.S
	s := S.sortOf(t)
	val := func(term string, srt Sort) string {
		n := g.leaf(term, srt)
		if g.vals == nil {
			return ""
		}
		return g.vals[n]
	}
	switch {
	case isInteger(t):
		v := val(x, s)
		if g.vals == nil {
			return ""
		}
		n, ok := parseIntVal(v)
		if !ok {
			g.fail = "cannot parse integer value " + v
			return "0"
		}
		if isBV(s) {
			if _, signed, _ := bvWidth(t); signed {
				w := bvWidthOfSort(s)
				if n.Cmp(pow2(uint(w-1))) >= 0 {
					n.Sub(n, pow2(uint(w)))
				}
			}
		}
		return fmt.Sprintf("%s(%s)", g.typeStr(t), n.String())
	case s == SBool:
		v := val(x, s)
		return v
	case s == SFP:
		g.fail = "float parameter"
		return "0"
	case s == SStr:
		return g.strLiteral(sx("strlen", x), x, false)
	case s == SBS:
		isNil := val(sx("bs_nil", x), SBool)
		lit := g.strLiteral(sx("strlen", sx("bs_c", x)), sx("bs_c", x), true)
		if g.vals == nil {
			return ""
		}
		if isNil == "true" {
			return fmt.Sprintf("%s(nil)", g.typeStr(t))
		}
		return fmt.Sprintf("%s(%s)", g.typeStr(t), lit)
	case strings.HasPrefix(s, "Slice_"):
		ln := val(sx("len_"+s, x), SInt)
		isNil := val(sx("nil_"+s, x), SBool)
		if g.vals == nil {
			return ""
		}
		n, ok := parseIntVal(ln)
		if !ok || n.Sign() < 0 || n.Cmp(big.NewInt(40)) > 0 {
			g.fail = "slice length " + ln + " not replayable"
			return "nil"
		}
		if isNil == "true" {
			return fmt.Sprintf("%s(nil)", g.typeStr(t))
		}
		et := t.Underlying().(*types.Slice).Elem()
		var els []string
		for i := 0; i < int(n.Int64()); i++ {
			els = append(els, g.literal(sx("select", sx("el_"+s, x), fmt.Sprint(i)), et, depth+1))
		}
		return fmt.Sprintf("%s{%s}", g.typeStr(t), strings.Join(els, ", "))
	case strings.HasPrefix(s, "S_") || strings.HasPrefix(s, "Sbv_"):
		u := t.Underlying().(*types.Struct)
		var fs []string
		for i := 0; i < u.NumFields(); i++ {
			f := u.Field(i)
			if !f.Exported() && f.Pkg() != g.pkg {
				continue
			}
			fs = append(fs, fmt.Sprintf("%s: %s", f.Name(), g.literal(sx(S.fieldSel(s, u, i), x), f.Type(), depth+1)))
		}
		return fmt.Sprintf("%s{%s}", g.typeStr(t), strings.Join(fs, ", "))
	}
	g.fail = "parameter of type " + t.String() + " is not replayable by the direct-call family"
	return "nil"
}

// strLiteral: abstract Str values are mapped to distinct concrete byte strings of the model's length.
func (g *rgen) strLiteral(lenTerm, idTerm string, asBytes bool) string {
	ln := g.leaf(lenTerm, SInt)
	id := g.leaf(idTerm, SStr)
	if g.vals == nil {
		return ""
	}
	n, ok := parseIntVal(g.vals[ln])
	if !ok || n.Sign() < 0 || n.Cmp(big.NewInt(512)) > 0 {
		g.fail = "string length not replayable"
		return `""`
	}
	key := g.vals[id]
	idx, seen := g.strIDs[key]
	if !seen {
		idx = len(g.strIDs) + 1
		g.strIDs[key] = idx
	}
	bs := make([]string, n.Int64())
	for i := range bs {
		bs[i] = "0xaa"
	}
	if len(bs) > 0 {
		bs[0] = fmt.Sprintf("0x%02x", idx%256)
	}
	if len(bs) > 1 {
		bs[1] = fmt.Sprintf("0x%02x", (idx/256)%256)
	}
	if asBytes {
		return fmt.Sprintf("[]byte{%s}", strings.Join(bs, ", "))
	}
	return fmt.Sprintf("string([]byte{%s})", strings.Join(bs, ", "))
}

func (P *Program) replayOnCode(o *Obligation, model map[string]string) map[string]interface{} {
	vc := o.vc
	fn := vc.fn
	out := map[string]interface{}{"family": "direct-call", "confirmed": false}
	if fn.Pkg == nil {
		return nil
	}
	g := &rgen{P: P, vc: vc, imports: map[string]string{}, pkg: fn.Pkg.Pkg, strIDs: map[string]int{}, usedSpec: map[string]bool{}}
	f := vc.topFrame
	build := func() ([]string, string) {
		var args []string
		recv := ""
		for i, p := range fn.Params {
			v, ok := f.vals[p].(Val)
			if !ok {
				g.fail = "non-scalar parameter"
				return nil, ""
			}
			if i == 0 && fn.Signature.Recv() != nil {
				// pointer receiver: struct built from the initial heap
				if pt, ok := p.Type().Underlying().(*types.Pointer); ok {
					if st, ok := pt.Elem().Underlying().(*types.Struct); ok {
						var fs []string
						for k := 0; k < st.NumFields(); k++ {
							fld := st.Field(k)
							key := f.heapKey(pt.Elem(), fld.Name())
							srt, used := vc.cellSort[key]
							if !used {
								continue
							}
							ft := fld.Type()
							switch {
							case isInteger(ft) || vc.S.sortOf(ft) == SBool || vc.S.sortOf(ft) == SBS:
								cell := fmt.Sprintf("|%s@0|", key)
								_ = srt
								fs = append(fs, fmt.Sprintf("%s: %s", fld.Name(), g.literal(sx("select", cell, v.t), ft, 1)))
							default:
								// fields of other kinds are left zero; the replay may then not reproduce
							}
						}
						recv = fmt.Sprintf("(&%s{%s})", g.typeStr(pt.Elem()), strings.Join(fs, ", "))
						continue
					}
				}
				recv = g.literal(v.t, p.Type(), 0)
				continue
			}
			args = append(args, g.literal(v.t, p.Type(), 0))
		}
		return args, recv
	}
	build() // pass 1: collect leaves (lengths first)
	if g.fail != "" {
		out["skipped"] = g.fail
		return out
	}
	// run A: lengths only
	var lenLeaves []rleaf
	for _, l := range g.leaves {
		if strings.HasPrefix(l.term, "(len_") || strings.HasPrefix(l.term, "(strlen") {
			lenLeaves = append(lenLeaves, l)
		}
	}
	all := g.leaves
	var fix []string
	if len(lenLeaves) > 0 {
		g.leaves = lenLeaves
		// bias towards small, replayable models first
		var small []string
		for _, l := range lenLeaves {
			small = append(small, sx("<=", l.term, "6"))
		}
		if !g.runGetValue(o, small) {
			g.fail = ""
			if !g.runGetValue(o, nil) {
				out["skipped"] = g.fail
				return out
			}
		}
		for _, l := range lenLeaves {
			if n, ok := parseIntVal(g.vals[l.name]); ok {
				fix = append(fix, eq(l.term, bigLit(n)))
			}
		}
		g.leaves = all
	}
	// iterate: element leaves appear once lengths are known
	for round := 0; round < 4; round++ {
		before := len(g.leaves)
		if !g.runGetValue(o, fix) {
			out["skipped"] = g.fail
			return out
		}
		g.fail = ""
		build()
		if len(g.leaves) == before {
			break
		}
		// new leaves were discovered (slice elements, nested lengths): fix the newly known lengths too
		saved := g.vals
		for _, l := range g.leaves[:before] {
			if strings.HasPrefix(l.term, "(len_") || strings.HasPrefix(l.term, "(strlen") {
				if n, ok := parseIntVal(saved[l.name]); ok {
					fix = append(fix, eq(l.term, bigLit(n)))
				}
			}
		}
		sort.Strings(fix)
		fix = uniq(fix)
		g.vals = nil
		build()
	}
	if g.vals == nil {
		if !g.runGetValue(o, fix) {
			out["skipped"] = g.fail
			return out
		}
	}
	g.fail = ""
	args, recv := build()
	if g.fail != "" {
		out["skipped"] = g.fail
		return out
	}
	call := fn.Name() + "(" + strings.Join(args, ", ") + ")"
	if recv != "" {
		call = recv + "." + call
	}
	out["call"] = call
	// oracle
	oracle := "true"
	holdsKnown := false
	if o.Kind == "post" && vc.con != nil {
		for i, e := range vc.con.Ensures {
			if fmt.Sprintf("ensures[%s]", clauseName(e, i)) == o.Label {
				cg := &goExprGen{g: g, fn: fn, args: map[string]string{}}
				code, kind, ok := cg.gen(e.E)
				if ok && kind == "bool" {
					oracle = code
					holdsKnown = true
				} else {
					out["oracle"] = "clause not translatable to Go: " + cg.why
				}
			}
		}
	}
	nres := fn.Signature.Results().Len()
	var resDecl, resAssign string
	var resNames []string
	for i := 0; i < nres; i++ {
		resNames = append(resNames, fmt.Sprintf("result%d", i))
		resDecl += fmt.Sprintf("\tvar result%d %s\n", i, g.typeStr(fn.Signature.Results().At(i).Type()))
	}
	if nres > 0 {
		resAssign = strings.Join(resNames, ", ") + " = "
	}
	var paramDecl strings.Builder
	pi := 0
	for i, p := range fn.Params {
		if i == 0 && fn.Signature.Recv() != nil {
			paramDecl.WriteString(fmt.Sprintf("\t%s := %s\n\t_ = %s\n", safeName(p.Name(), "recv"), recv, safeName(p.Name(), "recv")))
			continue
		}
		paramDecl.WriteString(fmt.Sprintf("\tvar %s %s = %s\n\t_ = %s\n", p.Name(), g.typeStr(p.Type()), args[pi], p.Name()))
		pi++
	}
	for i, p := range fn.Params {
		if pt, ok := p.Type().Underlying().(*types.Pointer); ok {
			if _, ok := pt.Elem().Underlying().(*types.Struct); ok {
				n := p.Name()
				if i == 0 && fn.Signature.Recv() != nil {
					n = safeName(p.Name(), "recv")
				}
				paramDecl.WriteString(fmt.Sprintf("\tsnap_%s := %s\n\tif %s != nil {\n\t\tc := *%s\n\t\tsnap_%s = &c\n\t}\n\t_ = snap_%s\n", n, n, n, n, n, n))
			}
		}
	}
	var callArgs []string
	for i, p := range fn.Params {
		if i == 0 && fn.Signature.Recv() != nil {
			continue
		}
		callArgs = append(callArgs, p.Name())
	}
	callExpr := fn.Name() + "(" + strings.Join(callArgs, ", ") + ")"
	if fn.Signature.Recv() != nil {
		callExpr = safeName(fn.Params[0].Name(), "recv") + "." + callExpr
	}
	speclib := replaySpecLib + g.specLibExtras()
	g.imports["fmt"] = "fmt"
	g.imports["testing"] = "testing"
	g.imports["math/big"] = "big"
	g.imports["bytes"] = "bytes"
	var imps []string
	for p, n := range g.imports {
		imps = append(imps, fmt.Sprintf("\t%s %q", n, p))
	}
	sort.Strings(imps)
	resPrint := "\"-\""
	if nres > 0 {
		resPrint = "fmt.Sprint(" + strings.Join(resNames, ", \" \", ") + ")"
	}
	src := fmt.Sprintf(`package %s

import (
%s
)

var _ = big.NewInt
var _ = bytes.Equal

func TestGovcReplay(govcT *testing.T) {
%s%s	var panicked interface{}
	func() {
		defer func() { panicked = recover() }()
		%s%s
	}()
	holds := true
	if panicked == nil {
		func() {
			defer func() {
				if r := recover(); r != nil {
					fmt.Println("GOVC-REPLAY-ORACLE-PANIC", r)
				}
			}()
			holds = %s
		}()
	}
	fmt.Printf("GOVC-REPLAY panicked=%%v holds=%%v result=%%s\n", panicked != nil, holds, %s)
	if panicked != nil {
		fmt.Printf("GOVC-REPLAY-PANIC %%v\n", panicked)
	}
}
%s
`, fn.Pkg.Pkg.Name(), strings.Join(imps, "\n"), paramDecl.String(), resDecl, resAssign, callExpr, oracle, resPrint, speclib)
	out["test_source"] = src
	// run
	pkgDir := ""
	for _, p := range P.pkgs {
		if p.Types == fn.Pkg.Pkg && len(p.GoFiles) > 0 {
			pkgDir = filepath.Dir(p.GoFiles[0])
		}
	}
	if pkgDir == "" {
		out["skipped"] = "package directory not found"
		return out
	}
	os.MkdirAll(workDir, 0o755)
	tmp := filepath.Join(workDir, fmt.Sprintf("replay_%d_test.go", time.Now().UnixNano()))
	os.WriteFile(tmp, []byte(src), 0o644)
	defer os.Remove(tmp)
	ov := filepath.Join(workDir, fmt.Sprintf("ov_%d.json", time.Now().UnixNano()))
	ovb, _ := json.Marshal(map[string]interface{}{"Replace": map[string]string{filepath.Join(pkgDir, "zz_govc_replay_test.go"): tmp}})
	os.WriteFile(ov, ovb, 0o644)
	defer os.Remove(ov)
	cmd := exec.Command("go", "test", "-overlay", ov, "-vet=off", "-count=1", "-timeout", "60s", "-v", "-run", "^TestGovcReplay$", ".")
	cmd.Dir = pkgDir
	cmd.Env = append(os.Environ(), "GOFLAGS=-mod=mod", "GOPROXY=off", "GOSUMDB=off", "GOTOOLCHAIN=local")
	var ob bytes.Buffer
	cmd.Stdout = &ob
	cmd.Stderr = &ob
	cmd.Run()
	outS := ob.String()
	out["test_output"] = truncate(outS, 4000)
	for _, l := range strings.Split(outS, "\n") {
		if strings.HasPrefix(l, "GOVC-REPLAY panicked=") {
			panicked := strings.Contains(l, "panicked=true")
			holds := strings.Contains(l, "holds=true")
			switch o.Kind {
			case "safety":
				out["confirmed"] = panicked
			case "post":
				out["confirmed"] = holdsKnown && !panicked && !holds || (panicked && vc.con != nil)
			case "pre", "inv-entry", "inv-preserved", "site":
				// internal obligations: a panic or a violated postcondition downstream would show up under their own labels
				out["confirmed"] = panicked
			}
		}
	}
	return out
}

func safeName(n, d string) string {
	if n == "" || n == "_" {
		return d
	}
	return n
}

// ---------- contract expression -> Go (math/big) ----------

type goExprGen struct {
	g    *rgen
	fn   interface{ Name() string }
	args map[string]string
	why  string
	bound map[string]bool
	inOld bool
}

func (c *goExprGen) gen(e *Expr) (string, string, bool) {
	fnv := c.g.vc.fn
	switch e.Op {
	case "num":
		n := new(big.Int)
		n.SetString(e.Name, 0)
		return fmt.Sprintf("bigS(%q)", n.String()), "int", true
	case "pow":
		a, _, _ := c.gen(e.Args[0])
		b, _, _ := c.gen(e.Args[1])
		return fmt.Sprintf("new(big.Int).Exp(%s, %s, nil)", a, b), "int", true
	case "id":
		if c.bound[e.Name] {
			return e.Name, "int", true
		}
		if e.Name == "result" {
			return c.wrapVal("result0", fnv.Signature.Results().At(0).Type())
		}
		if e.Name == "true" || e.Name == "false" {
			return e.Name, "bool", true
		}
		if e.Name == "nil" {
			return "nil", "nil", true
		}
		for i, rn := range []string{"result0", "result1", "result2"} {
			if e.Name == rn && i < fnv.Signature.Results().Len() {
				return c.wrapVal(rn, fnv.Signature.Results().At(i).Type())
			}
		}
		for i := 0; i < fnv.Signature.Results().Len(); i++ {
			if r := fnv.Signature.Results().At(i); r.Name() == e.Name && r.Name() != "" {
				return c.wrapVal(fmt.Sprintf("result%d", i), r.Type())
			}
		}
		for _, p := range fnv.Params {
			if p.Name() == e.Name {
				return c.wrapVal(c.paramName(p.Name(), p.Type()), p.Type())
			}
		}
		c.why = "identifier " + e.Name
		return "", "", false
	case "old":
		save := c.inOld
		c.inOld = true
		a, k, ok := c.gen(e.Args[0])
		c.inOld = save
		return a, k, ok
	case "un":
		a, k, ok := c.gen(e.Args[0])
		if !ok {
			return "", "", false
		}
		if e.Name == "!" {
			return "!(" + a + ")", "bool", true
		}
		_ = k
		return fmt.Sprintf("new(big.Int).Neg(%s)", a), "int", true
	case "bin":
		if e.Name == "&&" || e.Name == "||" || e.Name == "==>" {
			a, _, ok1 := c.gen(e.Args[0])
			b, _, ok2 := c.gen(e.Args[1])
			if !ok1 || !ok2 {
				return "", "", false
			}
			switch e.Name {
			case "&&":
				return "(" + a + " && " + b + ")", "bool", true
			case "||":
				return "(" + a + " || " + b + ")", "bool", true
			}
			return "(!(" + a + ") || " + b + ")", "bool", true
		}
		a, ka, ok1 := c.gen(e.Args[0])
		b, kb, ok2 := c.gen(e.Args[1])
		if !ok1 || !ok2 {
			return "", "", false
		}
		switch e.Name {
		case "==", "!=":
			var r string
			switch {
			case ka == "int" && kb == "int":
				r = fmt.Sprintf("(%s.Cmp(%s) == 0)", a, b)
			case ka == "bool":
				r = fmt.Sprintf("(%s == %s)", a, b)
			case ka == "bytes" && kb == "bytes":
				r = fmt.Sprintf("bytes.Equal(%s, %s)", a, b)
			case kb == "nil":
				r = fmt.Sprintf("(%s == nil)", a)
			case ka == "raw" && kb == "raw":
				r = fmt.Sprintf("(%s == %s)", a, b)
			case ka == "str" && kb == "str":
				r = fmt.Sprintf("(%s == %s)", a, b)
			default:
				c.why = "comparison of " + ka + " and " + kb
				return "", "", false
			}
			if e.Name == "!=" {
				r = "!" + r
			}
			return r, "bool", true
		case "<", "<=", ">", ">=":
			return fmt.Sprintf("(%s.Cmp(%s) %s 0)", a, b, e.Name), "bool", true
		case "+":
			return fmt.Sprintf("new(big.Int).Add(%s, %s)", a, b), "int", true
		case "-":
			return fmt.Sprintf("new(big.Int).Sub(%s, %s)", a, b), "int", true
		case "*":
			return fmt.Sprintf("new(big.Int).Mul(%s, %s)", a, b), "int", true
		case "/":
			return fmt.Sprintf("bigDiv(%s, %s)", a, b), "int", true
		case "%":
			return fmt.Sprintf("bigMod(%s, %s)", a, b), "int", true
		case "<<":
			return fmt.Sprintf("new(big.Int).Lsh(%s, uint(%s.Uint64()))", a, b), "int", true
		case ">>":
			return fmt.Sprintf("new(big.Int).Rsh(%s, uint(%s.Uint64()))", a, b), "int", true
		}
	case "call":
		switch e.Name {
		case "len":
			a, k, ok := c.genRaw(e.Args[0])
			if !ok {
				return "", "", false
			}
			_ = k
			return fmt.Sprintf("big.NewInt(int64(len(%s)))", a), "int", true
		case "isnil":
			a, _, ok := c.genRaw(e.Args[0])
			if !ok {
				return "", "", false
			}
			return "(" + a + " == nil)", "bool", true
		case "mathint", "int", "uint", "uint64", "int64":
			return c.gen(e.Args[0])
		}
		if _, ok := replaySpecFuncs[e.Name]; ok {
			var as []string
			for _, a := range e.Args {
				code, kind, ok := c.gen(a)
				if !ok || kind == "raw" {
					code, kind, ok = c.genRaw(a)
				}
				if !ok {
					return "", "", false
				}
				as = append(as, code)
			}
			c.g.usedSpec[e.Name] = true
			return fmt.Sprintf("spec_%s(%s)", e.Name, strings.Join(as, ", ")), replaySpecFuncs[e.Name], true
		}
		c.why = "function " + e.Name
		return "", "", false
	case "index":
		a, _, ok := c.genRaw(e.Args[0])
		i, _, ok2 := c.gen(e.Args[1])
		if !ok || !ok2 {
			return "", "", false
		}
		t := c.typeOfRaw(e.Args[0])
		if t == nil {
			c.why = "index into a value of unknown type"
			return "", "", false
		}
		if sl, ok := t.Underlying().(*types.Slice); ok {
			return c.wrapVal(fmt.Sprintf("%s[int(%s.Int64())]", a, i), sl.Elem())
		}
	case "sel":
		a, _, ok := c.genRaw(e.Args[0])
		if !ok {
			return "", "", false
		}
		t := c.typeOfRaw(e.Args[0])
		if t != nil {
			if pt, ok := t.Underlying().(*types.Pointer); ok {
				t = pt.Elem()
			}
			if st, ok := t.Underlying().(*types.Struct); ok {
				for i := 0; i < st.NumFields(); i++ {
					if st.Field(i).Name() == e.Name {
						return c.wrapVal(a+"."+e.Name, st.Field(i).Type())
					}
				}
			}
		}
	case "forall", "exists":
		if len(e.Vars) == 1 && e.Vars[0].Type == "int" {
			v := e.Vars[0].Name
			if c.bound == nil {
				c.bound = map[string]bool{}
			}
			c.bound[v] = true
			body, _, ok := c.gen(e.Args[0])
			delete(c.bound, v)
			if !ok {
				return "", "", false
			}
			init, op := "true", "&&"
			if e.Op == "exists" {
				init, op = "false", "||"
			}
			return fmt.Sprintf("func() bool { r := %s; for q := int64(-2); q <= 66; q++ { %s := big.NewInt(q); r = r %s func() (b bool) { defer func() { if recover() != nil { b = %s } }(); return %s }() }; return r }()", init, v, op, init, body), "bool", true
		}
	}
	if c.why == "" {
		c.why = "expression " + e.Op
	}
	return "", "", false
}

// genRaw: the Go value itself (no big.Int wrapping)
func (c *goExprGen) genRaw(e *Expr) (string, string, bool) {
	fnv := c.g.vc.fn
	switch e.Op {
	case "id":
		if e.Name == "result" {
			return "result0", "raw", true
		}
		for _, p := range fnv.Params {
			if p.Name() == e.Name {
				return c.paramName(p.Name(), p.Type()), "raw", true
			}
		}
		if c.bound[e.Name] {
			return e.Name, "int", true
		}
	case "old":
		save := c.inOld
		c.inOld = true
		a, k, ok := c.genRaw(e.Args[0])
		c.inOld = save
		return a, k, ok
	case "index":
		a, _, ok := c.genRaw(e.Args[0])
		i, _, ok2 := c.gen(e.Args[1])
		if ok && ok2 {
			return fmt.Sprintf("%s[int(%s.Int64())]", a, i), "raw", true
		}
	case "sel":
		a, _, ok := c.genRaw(e.Args[0])
		if ok {
			return a + "." + e.Name, "raw", true
		}
	}
	return c.gen(e)
}

func (c *goExprGen) paramName(n string, t types.Type) string {
	if c.inOld {
		if pt, ok := t.Underlying().(*types.Pointer); ok {
			if _, ok := pt.Elem().Underlying().(*types.Struct); ok {
				return "snap_" + n
			}
		}
	}
	return n
}

func (c *goExprGen) typeOfRaw(e *Expr) types.Type {
	fnv := c.g.vc.fn
	switch e.Op {
	case "old":
		return c.typeOfRaw(e.Args[0])
	case "id":
		if e.Name == "result" {
			return fnv.Signature.Results().At(0).Type()
		}
		for _, p := range fnv.Params {
			if p.Name() == e.Name {
				return p.Type()
			}
		}
	case "index":
		if t := c.typeOfRaw(e.Args[0]); t != nil {
			if sl, ok := t.Underlying().(*types.Slice); ok {
				return sl.Elem()
			}
		}
	case "sel":
		if t := c.typeOfRaw(e.Args[0]); t != nil {
			if pt, ok := t.Underlying().(*types.Pointer); ok {
				t = pt.Elem()
			}
			if st, ok := t.Underlying().(*types.Struct); ok {
				for i := 0; i < st.NumFields(); i++ {
					if st.Field(i).Name() == e.Name {
						return st.Field(i).Type()
					}
				}
			}
		}
	}
	return nil
}

func (c *goExprGen) wrapVal(code string, t types.Type) (string, string, bool) {
	switch {
	case isInteger(t):
		if b, ok := t.Underlying().(*types.Basic); ok && b.Info()&types.IsUnsigned != 0 {
			return fmt.Sprintf("new(big.Int).SetUint64(uint64(%s))", code), "int", true
		}
		return fmt.Sprintf("big.NewInt(int64(%s))", code), "int", true
	case isByteSlice(t):
		return fmt.Sprintf("[]byte(%s)", code), "bytes", true
	}
	if b, ok := t.Underlying().(*types.Basic); ok {
		if b.Info()&types.IsBoolean != 0 {
			return code, "bool", true
		}
		if b.Info()&types.IsString != 0 {
			return code, "str", true
		}
	}
	if _, ok := t.Underlying().(*types.Interface); ok {
		return code, "iface", true
	}
	return code, "raw", true
}

// Go transcriptions of the spec functions of /verif/specs/*.smt2 used by replay oracles.
var replaySpecFuncs = map[string]string{"SumW": "int", "SumMW": "int", "Fz": "int", "Qz": "int", "SW": "int", "Tspec": "int"}

const replaySpecLib = `
func bigS(s string) *big.Int { n, _ := new(big.Int).SetString(s, 10); return n }
func bigDiv(a, b *big.Int) *big.Int { q, _ := new(big.Int).DivMod(a, b, new(big.Int)); return q } // SMT div (floor for positive divisor)
func bigMod(a, b *big.Int) *big.Int { _, m := new(big.Int).DivMod(a, b, new(big.Int)); return m }
func spec_Fz(w *big.Int) *big.Int {
	if w.Sign() <= 0 { return big.NewInt(0) }
	return bigDiv(new(big.Int).Sub(w, big.NewInt(1)), big.NewInt(3))
}
func spec_Tspec(m, v *big.Int) *big.Int {
	max := bigS("9223372036854775807")
	if v.Cmp(big.NewInt(63)) >= 0 { return max }
	p := new(big.Int).Lsh(m, uint(v.Uint64()))
	if p.Cmp(max) > 0 { return max }
	return p
}
func spec_Qz(w *big.Int) *big.Int {
	if w.Sign() <= 0 { return big.NewInt(1) }
	return new(big.Int).Sub(w, spec_Fz(w))
}
`

func (g *rgen) specLibExtras() string {
	var sb strings.Builder
	cm := g.P.parseTypeExpr("interfaces.CommitteeMember")
	mid := g.P.parseTypeExpr("primitives.MemberId")
	if g.usedSpec["SumW"] {
		sb.WriteString(`
func spec_SumW[T ~uint64 | ~uint](s []T, n *big.Int) *big.Int {
	r := new(big.Int)
	for i := int64(0); i < n.Int64() && i < int64(len(s)); i++ { r.Add(r, new(big.Int).SetUint64(uint64(s[i]))) }
	return r
}
`)
	}
	if g.usedSpec["SumMW"] && cm != nil {
		sb.WriteString(fmt.Sprintf(`
func spec_SumMW(s []%s, n *big.Int) *big.Int {
	r := new(big.Int)
	for i := int64(0); i < n.Int64() && i < int64(len(s)); i++ { r.Add(r, new(big.Int).SetUint64(uint64(s[i].Weight))) }
	return r
}
`, g.typeStr(cm)))
	}
	if g.usedSpec["SW"] && cm != nil && mid != nil {
		sb.WriteString(fmt.Sprintf(`
func spec_SW(ids []%s, s []%s, n *big.Int) *big.Int {
	r := new(big.Int)
	for i := int64(0); i < n.Int64() && i < int64(len(s)); i++ {
		in := false
		for _, id := range ids { if bytes.Equal([]byte(id), []byte(s[i].Id)) { in = true } }
		if in { r.Add(r, new(big.Int).SetUint64(uint64(s[i].Weight))) }
	}
	return r
}
`, g.typeStr(mid), g.typeStr(cm)))
	}
	return sb.String()
}
