package main

// Backing-array aliasing of slices.  Slices are modelled as values (nil flag, length, element array); an `append` to a
// slice that was shortened with s[:k] writes into the backing array that other slice values still see.  The value model
// cannot express that, but one case is decidable and is a genuine frame violation: the shortened slice comes from memory
// that existed when the function was entered (a parameter, a captured variable, a field) and the append stays inside the
// window the caller still sees.  That is an undeclared write to the caller's elements; it is an obligation
// (`frame[backing-array]…`), refuted with a model when an element that differs is overwritten.  Shortening and appending to
// a slice the function made itself stays outside the subset (engine error ⇒ UNDECIDED), as before.
//
// The analysis is flow-insensitive and per function (go/ssa naive form keeps locals in Allocs, so values flow through
// Store/Load of local cells).

import (
	"fmt"
	"os"
	"path/filepath"
	"regexp"
	"sort"
	"strings"
	"go/token"
	"go/types"

	"golang.org/x/tools/go/ssa"
)

type shortInfo struct {
	entry map[ssa.Value]bool               // may share a backing array with memory alive at entry
	short map[ssa.Value]map[*ssa.Slice]bool // derives from these shortening Slice instructions
	cellE map[*ssa.Alloc]bool
	cellS map[*ssa.Alloc]map[*ssa.Slice]bool
	escaped bool // a shortened slice is stored somewhere the analysis does not follow
}

func isSliceT(t types.Type) bool {
	_, ok := t.Underlying().(*types.Slice)
	return ok
}

func (P *Program) shortInfoOf(fn *ssa.Function) *shortInfo {
	if P.shortCache == nil {
		P.shortCache = map[*ssa.Function]*shortInfo{}
	}
	if si, ok := P.shortCache[fn]; ok {
		return si
	}
	si := &shortInfo{entry: map[ssa.Value]bool{}, short: map[ssa.Value]map[*ssa.Slice]bool{}, cellE: map[*ssa.Alloc]bool{}, cellS: map[*ssa.Alloc]map[*ssa.Slice]bool{}}
	P.shortCache[fn] = si
	for _, p := range fn.Params {
		if isSliceT(p.Type()) {
			si.entry[p] = true
		}
	}
	for _, fv := range fn.FreeVars {
		si.entry[fv] = true
	}
	addS := func(dst map[*ssa.Slice]bool, src map[*ssa.Slice]bool) (map[*ssa.Slice]bool, bool) {
		ch := false
		for k := range src {
			if !dst[k] {
				if dst == nil {
					dst = map[*ssa.Slice]bool{}
				}
				dst[k] = true
				ch = true
			}
		}
		return dst, ch
	}
	inherit := func(v ssa.Value, from ssa.Value) bool {
		ch := false
		if si.entry[from] && !si.entry[v] {
			si.entry[v] = true
			ch = true
		}
		m, c := addS(si.short[v], si.short[from])
		if c {
			si.short[v] = m
			ch = true
		}
		return ch
	}
	for changed := true; changed; {
		changed = false
		for _, b := range fn.Blocks {
			for _, in := range b.Instrs {
				switch x := in.(type) {
				case *ssa.UnOp:
					if x.Op != token.MUL || !isSliceT(x.Type()) {
						continue
					}
					if a, ok := x.X.(*ssa.Alloc); ok {
						if si.cellE[a] && !si.entry[x] {
							si.entry[x] = true
							changed = true
						}
						m, c := addS(si.short[x], si.cellS[a])
						if c {
							si.short[x] = m
							changed = true
						}
					} else if !si.entry[x] {
						// field, element, global, captured cell: memory that may be alive at entry
						si.entry[x] = true
						changed = true
					}
				case *ssa.Store:
					if !isSliceT(x.Val.Type()) {
						continue
					}
					if a, ok := x.Addr.(*ssa.Alloc); ok {
						if si.entry[x.Val] && !si.cellE[a] {
							si.cellE[a] = true
							changed = true
						}
						m, c := addS(si.cellS[a], si.short[x.Val])
						if c {
							si.cellS[a] = m
							changed = true
						}
					} else if len(si.short[x.Val]) > 0 && !si.escaped {
						si.escaped = true
						changed = true
					}
				case *ssa.Phi:
					for _, e := range x.Edges {
						if inherit(x, e) {
							changed = true
						}
					}
				case *ssa.ChangeType:
					if inherit(x, x.X) {
						changed = true
					}
				case *ssa.Convert:
					if isSliceT(x.Type()) && isSliceT(x.X.Type()) && inherit(x, x.X) {
						changed = true
					}
				case *ssa.Slice:
					if !isSliceT(x.X.Type()) {
						continue
					}
					if inherit(x, x.X) {
						changed = true
					}
					if x.High != nil && !si.short[x][x] {
						if si.short[x] == nil {
							si.short[x] = map[*ssa.Slice]bool{}
						}
						si.short[x][x] = true
						changed = true
					}
				case *ssa.Call:
					if bi, ok := x.Call.Value.(*ssa.Builtin); ok && bi.Name() == "append" && len(x.Call.Args) > 0 {
						if inherit(x, x.Call.Args[0]) {
							changed = true
						}
					}
				}
			}
		}
	}
	return si
}

// appendToShortened: obligations / subset errors for append(s, t...) where s derives from a shortening s0[:k].
func (f *Frame) appendToShortened(c *ssa.CallCommon, s, t Val, pos token.Pos) {
	vc := f.vc
	si := vc.P.shortInfoOf(f.fn)
	origins := si.short[c.Args[0]]
	if len(origins) == 0 {
		if si.escaped || (vc.sliceShortened != "" && vc.sliceShortenedFn != f.fn) {
			vc.errf("%s: a slice is shortened (%s) and appended to (%s) in different functions or through a field: backing-array aliasing is outside the value model of slices", vc.P.fnKey(vc.fn), vc.sliceShortened, vc.appendSeen)
		}
		return
	}
	ls, lt := sx("len_"+s.s, s.t), sx("len_"+t.s, t.t)
	for o := range origins {
		if !si.entry[o.X] {
			vc.errf("%s: a slice made in this function is shortened (%s) and appended to (%s): backing-array aliasing is outside the value model of slices", vc.P.fnKey(vc.fn), vc.P.fset.Position(o.Pos()), vc.appendSeen)
			continue
		}
		goal := "false"
		if orig, ok := f.shortOrig[o]; ok && orig.s == s.s {
			lo := sx("len_"+orig.s, orig.t)
			if k, okc := f.constLenSlice(c.Args[1]); okc {
				var cs []string
				for i := 0; i < k; i++ {
					at := sx("+", ls, fmt.Sprint(i))
					cs = append(cs, eq(sx("select", sx("el_"+t.s, t.t), fmt.Sprint(i)), sx("select", sx("el_"+orig.s, orig.t), at)))
				}
				// only a definite overwrite counts: the appended elements fit into the window the caller still sees
				goal = or(sx(">", sx("+", ls, fmt.Sprint(k)), lo), and(cs...))
			} else {
				goal = or(eq(lt, "0"), sx(">", sx("+", ls, lt), lo))
			}
		}
		n := vc.callOrd["frame:backing-array"]
		vc.callOrd["frame:backing-array"] = n + 1
		label := fmt.Sprintf("frame[backing-array].an-append-to-a-shortened-slice-leaves-the-elements-the-caller-still-sees#%d", n)
		fo := vc.addObl(f, "frame", label, goal, "append to the slice shortened at "+relPos(vc.P, o.Pos())+" (a slice that existed at entry) does not overwrite a caller-visible element with a different value", pos)
		// like any undeclared write that reaches memory alive at entry: if it cannot be excluded, it is reported
		fo.NotExcluded = true
	}
}

func relPos(P *Program, p token.Pos) string {
	q := P.fset.Position(p)
	return fmt.Sprintf("%s:%d", strings.TrimPrefix(q.Filename, P.repoDir+"/"), q.Line)
}

// ---------- fields no contract talks about ----------
//
// A struct field whose name occurs in no contract, spec or property configuration ("untracked") cannot carry a verified
// fact.  Writing it is treated as declared: the cell is implicitly in the `modifies` of every function that may write it
// (statically, through static callees and closures), so callers see it havocked and no frame obligation is generated for
// it.  Without this rule a maintenance change that adds a counter or a cache field nobody reads raises a frame violation
// in every function that bumps it - a false alarm.  A field that some contract mentions keeps its frame obligations.

func (P *Program) trackedName(field string) bool {
	if P.corpus == nil {
		var sb strings.Builder
		var files []string
		files = append(files, P.contracts.Files...)
		more, _ := filepath.Glob(filepath.Join(P.verifDir, "props", "*.json"))
		files = append(files, more...)
		more, _ = filepath.Glob(filepath.Join(P.verifDir, "specs", "*.spec"))
		files = append(files, more...)
		for _, f := range files {
			if d, err := os.ReadFile(f); err == nil {
				sb.Write(d)
				sb.WriteByte('\n')
			}
		}
		c := sb.String()
		P.corpus = &c
		P.trackedMemo = map[string]bool{}
	}
	if v, ok := P.trackedMemo[field]; ok {
		return v
	}
	re := regexp.MustCompile(`(^|[^A-Za-z0-9_])` + regexp.QuoteMeta(field) + `([^A-Za-z0-9_]|$)`)
	v := re.MatchString(*P.corpus)
	P.trackedMemo[field] = v
	return v
}

// untrackedKey: the field name of a heap cell key "H:<type>.<field>" if no contract mentions that field.
func (P *Program) untrackedKey(k string) bool {
	if !strings.HasPrefix(k, "H:") {
		return false
	}
	i := strings.LastIndex(k, ".")
	if i < 0 {
		return false
	}
	return !P.trackedName(k[i+1:])
}

// untrackedWrites: heap cells of untracked fields that fn may write, through static callees and closures it creates.
func (P *Program) untrackedWrites(fn *ssa.Function) []string {
	if fn == nil {
		return nil
	}
	if P.untrackedMemo == nil {
		P.untrackedMemo = map[*ssa.Function][]string{}
	}
	if v, ok := P.untrackedMemo[fn]; ok {
		return v
	}
	set := map[string]bool{}
	seen := map[*ssa.Function]bool{}
	var walk func(g *ssa.Function)
	walk = func(g *ssa.Function) {
		if g == nil || seen[g] || g.Blocks == nil {
			return
		}
		seen[g] = true
		for _, b := range g.Blocks {
			for _, in := range b.Instrs {
				switch x := in.(type) {
				case *ssa.Store:
					if fa, ok := x.Addr.(*ssa.FieldAddr); ok {
						if pt, ok := fa.X.Type().Underlying().(*types.Pointer); ok {
							if st, ok := pt.Elem().Underlying().(*types.Struct); ok {
								name := st.Field(fa.Field).Name()
								if !P.trackedName(name) {
									set["H:"+P.sorts.typeName(pt.Elem())+"."+name] = true
								}
							}
						}
					}
				case *ssa.MakeClosure:
					if cf, ok := x.Fn.(*ssa.Function); ok {
						walk(cf)
					}
				case ssa.CallInstruction:
					if cal := x.Common().StaticCallee(); cal != nil {
						walk(cal)
					}
				}
			}
		}
	}
	walk(fn)
	var out []string
	for k := range set {
		out = append(out, k)
	}
	sort.Strings(out)
	P.untrackedMemo[fn] = out
	return out
}

// effMods: the declared `modifies` of a contract plus the untracked cells its function may write.
func (P *Program) effMods(con *Contract) []string {
	if con == nil {
		return nil
	}
	fn := P.fnByKey[con.Key]
	if fn == nil {
		return con.Modifies
	}
	extra := P.untrackedWrites(fn)
	if len(extra) == 0 {
		return con.Modifies
	}
	return append(append([]string{}, con.Modifies...), extra...)
}
