package main

import (
	"flag"
	"fmt"
	"os"
	"strings"
	"time"
)

func main() {
	if len(os.Args) < 2 {
		fmt.Fprintln(os.Stderr, "usage: govc vc|check ...")
		os.Exit(2)
	}
	switch os.Args[1] {
	case "vc":
		cmdVC(os.Args[2:])
	case "check":
		cmdCheck(os.Args[2:])
	case "coverage":
		cmdCoverage(os.Args[2:])
	default:
		fmt.Fprintln(os.Stderr, "unknown command", os.Args[1])
		os.Exit(2)
	}
}

func cmdVC(args []string) {
	fs := flag.NewFlagSet("vc", flag.ExitOnError)
	repo := fs.String("repo", "/repo", "repository")
	verif := fs.String("verif", "/verif", "verif dir")
	secs := fs.Int("t", 10, "solver seconds")
	dump := fs.String("dump", "", "dump queries to dir")
	verbose := fs.Bool("v", false, "verbose")
	fs.Parse(args)
	dumpDir = *dump
	t0 := time.Now()
	P, err := loadProgram(*repo, *verif)
	if err != nil {
		fmt.Fprintln(os.Stderr, "load error:", err)
		os.Exit(2)
	}
	fmt.Printf("loaded in %.1fs, %d contracts\n", time.Since(t0).Seconds(), len(P.contracts.All))
	for _, pat := range fs.Args() {
		for _, con := range P.contracts.All {
			if con.Kind != "func" || con.NoBody || !strings.Contains(con.Key, pat) {
				continue
			}
			fr, _ := P.genVC(con)
			P.discharge(fr.Obls, *secs, false, 16)
			fmt.Printf("== %s (%s): %d obligations\n", fr.Key, fr.Pos, len(fr.Obls))
			for _, e := range fr.Errs {
				fmt.Println("   UNDECIDED:", e)
			}
			for _, o := range fr.Obls {
				st := o.Res.Status
				mark := "  "
				if (st != "unsat") != o.MustFail {
					mark = "!!"
				}
				fmt.Printf(" %s %-8s %-7s %5.2fs %s  [%s] %s\n", mark, st, o.Res.Solver, o.Res.Secs, o.Label, o.Pos, o.Src)
				if *verbose && st != "unsat" && !o.MustFail {
					fmt.Println(firstLines(o.Res.Raw, 60))
				}
			}
			fmt.Println("   assumptions:", strings.Join(fr.Used, ", "), " inlined:", strings.Join(fr.Inlined, ", "))
		}
	}
}

// cmdCoverage: which library functions are reached by the verifier, and how (under contract, inlined into a function under
// contract, assumed contract, skipped as logging, not reached). No solver is run.
func cmdCoverage(args []string) {
	fs := flag.NewFlagSet("coverage", flag.ExitOnError)
	repo := fs.String("repo", "/repo", "repository")
	verif := fs.String("verif", "/verif", "verif dir")
	fs.Parse(args)
	P, err := loadProgram(*repo, *verif)
	if err != nil {
		fmt.Fprintln(os.Stderr, "load error:", err)
		os.Exit(2)
	}
	status := map[string]string{}
	for _, con := range P.contracts.All {
		if con.Kind != "func" {
			continue
		}
		if con.NoBody {
			status[con.Key] = "TRUSTED (contract assumed, body not verified)"
			continue
		}
		fr := safeGenVC(P, con)
		st := fmt.Sprintf("VERIFIED (%d obligations; props %s)", len(fr.Obls), strings.Join(con.Props, " "))
		if len(fr.Errs) > 0 {
			st = "UNDECIDED: " + fr.Errs[0]
		}
		status[con.Key] = st
		for _, k := range fr.Inlined {
			if _, ok := status[k]; !ok {
				status[k] = "inlined into " + con.Key
			}
		}
	}
	n := map[string]int{}
	for _, fn := range P.allRepoFuncs() {
		if !P.isLibrary(fn) {
			continue
		}
		k := P.fnKey(fn)
		st, ok := status[k]
		if !ok {
			if matchAny(P.contracts.Skip, k) {
				st = "skipped (A-LOG: effect-free logging/formatting)"
			} else if P.isPure(k) {
				st = "pure accessor (A-PURE)"
			} else {
				st = "NOT REACHED"
			}
		}
		n[strings.Fields(st)[0]]++
		fmt.Printf("%-90s %s\n", k, st)
	}
	fmt.Println("summary:", n)
}
