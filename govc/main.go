package main

import (
	"flag"
	"fmt"
	"os"
	"strings"
	"time"
)

func main() {
	if len(os.Args) < 2 {
		fmt.Fprintln(os.Stderr, "usage: govc vc|check ...")
		os.Exit(2)
	}
	switch os.Args[1] {
	case "vc":
		cmdVC(os.Args[2:])
	case "check":
		cmdCheck(os.Args[2:])
	default:
		fmt.Fprintln(os.Stderr, "unknown command", os.Args[1])
		os.Exit(2)
	}
}

func cmdVC(args []string) {
	fs := flag.NewFlagSet("vc", flag.ExitOnError)
	repo := fs.String("repo", "/repo", "repository")
	verif := fs.String("verif", "/verif", "verif dir")
	secs := fs.Int("t", 10, "solver seconds")
	dump := fs.String("dump", "", "dump queries to dir")
	verbose := fs.Bool("v", false, "verbose")
	fs.Parse(args)
	dumpDir = *dump
	t0 := time.Now()
	P, err := loadProgram(*repo, *verif)
	if err != nil {
		fmt.Fprintln(os.Stderr, "load error:", err)
		os.Exit(2)
	}
	fmt.Printf("loaded in %.1fs, %d contracts\n", time.Since(t0).Seconds(), len(P.contracts.All))
	for _, pat := range fs.Args() {
		for _, con := range P.contracts.All {
			if con.Kind != "func" || con.NoBody || !strings.Contains(con.Key, pat) {
				continue
			}
			fr, _ := P.genVC(con)
			P.discharge(fr.Obls, *secs, false, 16)
			fmt.Printf("== %s (%s): %d obligations\n", fr.Key, fr.Pos, len(fr.Obls))
			for _, e := range fr.Errs {
				fmt.Println("   UNDECIDED:", e)
			}
			for _, o := range fr.Obls {
				st := o.Res.Status
				mark := "  "
				if (st != "unsat") != o.MustFail {
					mark = "!!"
				}
				fmt.Printf(" %s %-8s %-7s %5.2fs %s  [%s] %s\n", mark, st, o.Res.Solver, o.Res.Secs, o.Label, o.Pos, o.Src)
				if *verbose && st != "unsat" && !o.MustFail {
					fmt.Println(firstLines(o.Res.Raw, 60))
				}
			}
			fmt.Println("   assumptions:", strings.Join(fr.Used, ", "), " inlined:", strings.Join(fr.Inlined, ", "))
		}
	}
}
