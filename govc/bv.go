package main

// mode bv: Go integers as fixed-width bit-vectors (needed where float64 conversions occur; DESIGN §2.4).
// Restricted subset: scalar arithmetic, heap field loads, calls by contract/model. No slices, maps or len().

import (
	"fmt"
	"go/token"
	"go/types"
	"math/big"
	"strings"
)

func bvWidth(t types.Type) (int, bool, bool) { // width, signed, ok
	b, ok := t.Underlying().(*types.Basic)
	if !ok || b.Info()&types.IsInteger == 0 {
		return 0, false, false
	}
	signed := b.Info()&types.IsUnsigned == 0
	switch b.Kind() {
	case types.Int8, types.Uint8:
		return 8, signed, true
	case types.Int16, types.Uint16:
		return 16, signed, true
	case types.Int32, types.Uint32:
		return 32, signed, true
	default:
		return 64, signed, true
	}
}

func bvSort(w int) Sort { return fmt.Sprintf("(_ BitVec %d)", w) }

func isBV(s Sort) bool { return strings.HasPrefix(s, "(_ BitVec") }

func bvWidthOfSort(s Sort) int {
	var w int
	fmt.Sscanf(s, "(_ BitVec %d)", &w)
	return w
}

func bvLit(v *big.Int, w int) string {
	m := new(big.Int).Mod(v, pow2(uint(w)))
	return fmt.Sprintf("(_ bv%s %d)", m.String(), w)
}

func signedOf(v Val) bool {
	if v.gt == nil {
		return false
	}
	_, s, ok := bvWidth(v.gt)
	return ok && s
}

func (f *Frame) bvBinop(op token.Token, a, b Val, resT types.Type, pos token.Pos) Val {
	vc := f.vc
	signed := signedOf(a)
	rs := vc.sortOf(resT)
	// shift counts may have a different width
	if op == token.SHL || op == token.SHR {
		wa, wb := bvWidthOfSort(a.s), bvWidthOfSort(b.s)
		cnt := b.t
		if wb < wa {
			cnt = fmt.Sprintf("((_ zero_extend %d) %s)", wa-wb, b.t)
		} else if wb > wa {
			// counts >= width give 0 / sign fill anyway: saturate
			cnt = ite(sx("bvuge", b.t, bvLit(big.NewInt(int64(wa)), wb)), bvLit(big.NewInt(int64(wa)), wa), fmt.Sprintf("((_ extract %d 0) %s)", wa-1, b.t))
		}
		if signedOf(b) {
			f.safety("negative-shift", not(sx("bvslt", b.t, bvLit(big.NewInt(0), wb))), pos)
		}
		switch {
		case op == token.SHL:
			return Val{sx("bvshl", a.t, cnt), a.s, resT}
		case signed:
			return Val{sx("bvashr", a.t, cnt), a.s, resT}
		default:
			return Val{sx("bvlshr", a.t, cnt), a.s, resT}
		}
	}
	switch op {
	case token.ADD:
		return Val{sx("bvadd", a.t, b.t), rs, resT}
	case token.SUB:
		return Val{sx("bvsub", a.t, b.t), rs, resT}
	case token.MUL:
		return Val{sx("bvmul", a.t, b.t), rs, resT}
	case token.QUO, token.REM:
		w := bvWidthOfSort(a.s)
		f.safety("div-by-zero", sx("distinct", b.t, bvLit(big.NewInt(0), w)), pos)
		o := map[bool]map[token.Token]string{true: {token.QUO: "bvsdiv", token.REM: "bvsrem"}, false: {token.QUO: "bvudiv", token.REM: "bvurem"}}[signed][op]
		return Val{sx(o, a.t, b.t), rs, resT}
	case token.AND:
		return Val{sx("bvand", a.t, b.t), rs, resT}
	case token.OR:
		return Val{sx("bvor", a.t, b.t), rs, resT}
	case token.XOR:
		return Val{sx("bvxor", a.t, b.t), rs, resT}
	case token.AND_NOT:
		return Val{sx("bvand", a.t, sx("bvnot", b.t)), rs, resT}
	case token.EQL:
		return Val{eq(a.t, b.t), SBool, resT}
	case token.NEQ:
		return Val{not(eq(a.t, b.t)), SBool, resT}
	case token.LSS, token.LEQ, token.GTR, token.GEQ:
		o := map[bool]map[token.Token]string{
			true:  {token.LSS: "bvslt", token.LEQ: "bvsle", token.GTR: "bvsgt", token.GEQ: "bvsge"},
			false: {token.LSS: "bvult", token.LEQ: "bvule", token.GTR: "bvugt", token.GEQ: "bvuge"}}[signed][op]
		return Val{sx(o, a.t, b.t), SBool, resT}
	}
	vc.errf("%s: unsupported bit-vector operator %s", vc.P.fnKey(f.fn), op)
	return Val{vc.fresh("bvop", rs), rs, resT}
}

func (f *Frame) bvConvert(x Val, to types.Type) Val {
	vc := f.vc
	ts := vc.sortOf(to)
	switch {
	case isBV(x.s) && isBV(ts):
		wf, wt := bvWidthOfSort(x.s), bvWidthOfSort(ts)
		switch {
		case wf == wt:
			return Val{x.t, ts, to}
		case wf > wt:
			return Val{fmt.Sprintf("((_ extract %d 0) %s)", wt-1, x.t), ts, to}
		case signedOf(x):
			return Val{fmt.Sprintf("((_ sign_extend %d) %s)", wt-wf, x.t), ts, to}
		default:
			return Val{fmt.Sprintf("((_ zero_extend %d) %s)", wt-wf, x.t), ts, to}
		}
	case isBV(x.s) && ts == SFP:
		vc.used["T-FP"] = true
		if signedOf(x) {
			return Val{sx("(_ to_fp 11 53)", "RNE", x.t), SFP, to}
		}
		return Val{sx("(_ to_fp_unsigned 11 53)", "RNE", x.t), SFP, to}
	case x.s == SFP && isBV(ts):
		// A-CVT (amd64): in range -> truncation toward zero; out of range / NaN -> the "integer indefinite" value.
		vc.used["T-FP"] = true
		vc.used["A-CVT"] = true
		w, signed, _ := bvWidth(to)
		if signed {
			lo := fpLit(-float64(uint64(1) << uint(w-1)))
			hi := fpLit(float64(uint64(1) << uint(w-1)))
			inRange := and(not(sx("fp.isNaN", x.t)), sx("fp.geq", x.t, lo), sx("fp.lt", x.t, hi))
			return Val{ite(inRange, sx(fmt.Sprintf("(_ fp.to_sbv %d)", w), "RTZ", x.t), bvLit(new(big.Int).Neg(pow2(uint(w-1))), w)), ts, to}
		}
		// uint64(f): Go on amd64 computes, for f < 2^63, int64 truncation; for 2^63 <= f < 2^64, (f-2^63) truncated xor sign bit;
		// everything else (negative, NaN, >= 2^64) yields 0x8000000000000000.
		hi := fpLit(18446744073709551616.0)
		inRange := and(not(sx("fp.isNaN", x.t)), sx("fp.gt", x.t, fpLit(-1)), sx("fp.lt", x.t, hi))
		return Val{ite(inRange, sx(fmt.Sprintf("(_ fp.to_ubv %d)", w), "RTZ", x.t), bvLit(pow2(uint(w-1)), w)), ts, to}
	case x.s == ts:
		return Val{x.t, ts, to}
	}
	vc.errf("%s: unsupported conversion %s -> %s (mode bv)", vc.P.fnKey(f.fn), x.s, ts)
	return Val{vc.fresh("conv", ts), ts, to}
}

// ---- contract expressions in bv mode ----

func (e *Env) bvCoerce(a, b Val) (Val, Val) {
	// integer literals take the width (and signedness) of the other operand
	if isBV(a.s) && b.s == SInt {
		if n, ok := new(big.Int).SetString(strings.Trim(strings.ReplaceAll(strings.ReplaceAll(b.t, "(- ", "-"), ")", ""), " "), 10); ok {
			return a, Val{bvLit(n, bvWidthOfSort(a.s)), a.s, a.gt}
		}
	}
	if isBV(b.s) && a.s == SInt {
		if n, ok := new(big.Int).SetString(strings.Trim(strings.ReplaceAll(strings.ReplaceAll(a.t, "(- ", "-"), ")", ""), " "), 10); ok {
			return Val{bvLit(n, bvWidthOfSort(b.s)), b.s, b.gt}, b
		}
	}
	return a, b
}

func (e *Env) bvBin(op string, a, b Val) (Val, bool) {
	a, b = e.bvCoerce(a, b)
	if !isBV(a.s) || !isBV(b.s) {
		return Val{}, false
	}
	signed := signedOf(a) || signedOf(b)
	cmp := map[bool]map[string]string{
		true:  {"<": "bvslt", "<=": "bvsle", ">": "bvsgt", ">=": "bvsge"},
		false: {"<": "bvult", "<=": "bvule", ">": "bvugt", ">=": "bvuge"}}[signed]
	if o, ok := cmp[op]; ok {
		return Val{sx(o, a.t, b.t), SBool, nil}, true
	}
	switch op {
	case "+":
		return Val{sx("bvadd", a.t, b.t), a.s, a.gt}, true
	case "-":
		return Val{sx("bvsub", a.t, b.t), a.s, a.gt}, true
	case "*":
		return Val{sx("bvmul", a.t, b.t), a.s, a.gt}, true
	case "/":
		if signed {
			return Val{sx("bvsdiv", a.t, b.t), a.s, a.gt}, true
		}
		return Val{sx("bvudiv", a.t, b.t), a.s, a.gt}, true
	case "%":
		if signed {
			return Val{sx("bvsrem", a.t, b.t), a.s, a.gt}, true
		}
		return Val{sx("bvurem", a.t, b.t), a.s, a.gt}, true
	case "<<":
		return Val{sx("bvshl", a.t, b.t), a.s, a.gt}, true
	case ">>":
		if signedOf(a) {
			return Val{sx("bvashr", a.t, b.t), a.s, a.gt}, true
		}
		return Val{sx("bvlshr", a.t, b.t), a.s, a.gt}, true
	case "==":
		return Val{eq(a.t, b.t), SBool, nil}, true
	case "!=":
		return Val{not(eq(a.t, b.t)), SBool, nil}, true
	}
	return Val{}, false
}
