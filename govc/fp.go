package main

// float64 support: SMT FloatingPoint 11 53, RNE. Integers are mathematical in the VC, so conversions go
// through Real (SMT-LIB `to_fp` from Real / `fp.to_real`), which is exact.

import (
	"fmt"
	"go/token"
	"go/types"
	"math"
)

func fpLit(f float64) string {
	b := math.Float64bits(f)
	sign := b >> 63
	exp := (b >> 52) & 0x7ff
	man := b & ((1 << 52) - 1)
	return fmt.Sprintf("(fp #b%b #b%011b #b%052b)", sign, exp, man)
}

func (f *Frame) fpBinop(op token.Token, a, b Val, resT types.Type) Val {
	vc := f.vc
	vc.used["T-FP"] = true
	switch op {
	case token.ADD:
		return Val{sx("fp.add", "RNE", a.t, b.t), SFP, resT}
	case token.SUB:
		return Val{sx("fp.sub", "RNE", a.t, b.t), SFP, resT}
	case token.MUL:
		return Val{sx("fp.mul", "RNE", a.t, b.t), SFP, resT}
	case token.QUO:
		return Val{sx("fp.div", "RNE", a.t, b.t), SFP, resT}
	case token.EQL:
		return Val{sx("fp.eq", a.t, b.t), SBool, resT}
	case token.NEQ:
		return Val{not(sx("fp.eq", a.t, b.t)), SBool, resT}
	case token.LSS:
		return Val{sx("fp.lt", a.t, b.t), SBool, resT}
	case token.LEQ:
		return Val{sx("fp.leq", a.t, b.t), SBool, resT}
	case token.GTR:
		return Val{sx("fp.gt", a.t, b.t), SBool, resT}
	case token.GEQ:
		return Val{sx("fp.geq", a.t, b.t), SBool, resT}
	}
	vc.errf("unsupported float operator %s", op)
	return Val{vc.fresh("fp", SFP), SFP, resT}
}

func (f *Frame) fpConvert(x Val, to types.Type) Val {
	vc := f.vc
	vc.used["T-FP"] = true
	ts := vc.sortOf(to)
	switch {
	case x.s == SInt && ts == SFP:
		return Val{sx("(_ to_fp 11 53)", "RNE", sx("to_real", x.t)), SFP, to}
	case x.s == SFP && ts == SInt:
		// Go: truncation toward zero when the value fits; implementation-specific otherwise.
		// amd64 (CVTTSD2SQ): out-of-range and NaN give 0x8000000000000000 for int64 (A-CVT).
		vc.used["A-CVT"] = true
		r := sx("fp.to_real", sx("fp.roundToIntegral", "RTZ", x.t))
		i := sx("to_int", r)
		lo, hi, _ := intRange(to)
		inRange := and(not(sx("fp.isNaN", x.t)), not(sx("fp.isInfinite", x.t)), sx("<=", bigLit(lo), i), sx("<=", i, bigLit(hi)))
		c := vc.fresh("f2i", SInt)
		var oor string
		if lo.Sign() < 0 {
			oor = bigLit(lo) // MinInt
		} else {
			// uint64(f) on amd64: values >= 2^63 are converted via subtraction; negative / NaN behave as int64 conversion wrapped
			oor = vc.fresh("f2u_oor", SInt)
			vc.assume(and(sx("<=", "0", oor), sx("<=", oor, bigLit(hi))))
		}
		vc.assume(eq(c, ite(inRange, i, oor)))
		return Val{c, SInt, to}
	case x.s == SFP && ts == SFP:
		return Val{x.t, SFP, to}
	}
	vc.errf("unsupported float conversion %s -> %s", x.s, ts)
	return Val{vc.fresh("conv", ts), ts, to}
}
