package main

// Evaluation of contract expressions to SMT terms. Contract arithmetic is mathematical (unbounded).

import (
	"fmt"
	"go/constant"
	"go/types"
	"math/big"
	"strings"

	"golang.org/x/tools/go/ssa"
)

type Env struct {
	f       *Frame
	names   map[string]EV
	st, old *State
	results []EV
	resNames []string
	pkg     *types.Package
	li      *loopInfo
	locals  *Frame
	err     func(string)
	underQuant bool
	now     *State
}

func (f *Frame) evalClause(c Clause, st, old *State, results []EV, li *loopInfo) string {
	env := f.ownEnv(st, old, results, li)
	v := env.evalBool(c.E)
	return v
}

func (f *Frame) ownEnv(st, old *State, results []EV, li *loopInfo) *Env {
	env := &Env{f: f, names: map[string]EV{}, st: st, old: old, results: results, pkg: f.fn.Pkg.Pkg, li: li, locals: f}
	for _, p := range f.fn.Params {
		env.names[p.Name()] = f.vals[p]
	}
	if f.fn.Signature != nil {
		for i, old := range f.vc.P.renamedParams(f.vc.P.fnKey(f.fn), f.fn.Signature) {
			if _, taken := env.names[old]; old != "" && !taken && i < len(f.fn.Params) {
				env.names[old] = f.vals[f.fn.Params[i]]
				f.vc.used["PARAM-RENAMED:"+f.vc.P.fnKey(f.fn)+":"+old] = true
			}
		}
	}
	for _, fv := range f.fn.FreeVars {
		// a free variable is the address of the captured variable: contracts name the variable itself
		if v, ok := f.vals[fv].(Val); ok {
			if pt, isP := fv.Type().Underlying().(*types.Pointer); isP {
				et := pt.Elem()
				if _, isStruct := et.Underlying().(*types.Struct); !isStruct {
					env.names[fv.Name()] = &Ptr{root: "D:" + f.vc.S.typeName(et), ref: v.t, rootT: et, elemT: et}
					continue
				}
			}
		}
		env.names[fv.Name()] = f.vals[fv]
	}
	if sig := f.fn.Signature; sig != nil {
		for i := 0; i < sig.Results().Len(); i++ {
			env.resNames = append(env.resNames, sig.Results().At(i).Name())
		}
	}
	return env
}

func (e *Env) fail(format string, a ...interface{}) {
	e.f.vc.errf("contract expression: "+format, a...)
}

func (e *Env) evalBool(x *Expr) string {
	v := e.eval(x)
	if v.s != SBool {
		e.fail("expected boolean in %q, got %s", exprSrc(x), v.s)
		return "true"
	}
	return v.t
}

func exprSrc(x *Expr) string {
	if x == nil {
		return ""
	}
	if x.Src != "" {
		return x.Src
	}
	switch x.Op {
	case "id", "num":
		return x.Name
	case "bin":
		return exprSrc(x.Args[0]) + " " + x.Name + " " + exprSrc(x.Args[1])
	case "call":
		return x.Name + "(...)"
	case "mcall":
		return exprSrc(x.Args[0]) + "." + x.Name + "(...)"
	case "sel":
		return exprSrc(x.Args[0]) + "." + x.Name
	}
	return x.Op
}

func (e *Env) withState(st *State) *Env {
	n := *e
	if n.now == nil {
		n.now = e.st // locals keep their current value inside old(): only heap, ghost and globals are "old"
	}
	n.st = st
	return &n
}

func (e *Env) localState() *State {
	if e.now != nil {
		return e.now
	}
	return e.st
}

func (e *Env) bind(name string, v EV) *Env {
	n := *e
	n.names = map[string]EV{}
	for k, x := range e.names {
		n.names[k] = x
	}
	n.names[name] = v
	return &n
}

func evAsVal(ev EV) (Val, bool) {
	switch x := ev.(type) {
	case Val:
		return x, true
	case *Closure:
		return x.id, true
	}
	return Val{}, false
}

func (e *Env) lookupID(name string) (Val, bool) {
	f := e.f
	vc := f.vc
	if ev, ok := e.names[name]; ok {
		if v, ok := evAsVal(ev); ok {
			return v, true
		}
		if p, ok := ev.(*Ptr); ok {
			return f.loadPtr(e.st, p), true
		}
	}
	switch name {
	case "true":
		return Val{"true", SBool, types.Typ[types.Bool]}, true
	case "false":
		return Val{"false", SBool, types.Typ[types.Bool]}, true
	case "nil":
		return Val{"NIL", "NIL", nil}, true
	case "result":
		if len(e.results) >= 1 {
			if v, ok := evAsVal(e.results[0]); ok {
				return v, true
			}
		}
		// inside a loop invariant there is no return value: `result` may then name a local variable of that name
		if e.locals != nil && len(e.locals.localsByName["result"]) > 0 {
			break
		}
		e.fail("result not available here")
		return Val{"0", SInt, nil}, true
	case "$i":
		if e.li != nil && e.li.kind == "maprange" && e.li.idxCell != "" {
			// number of keys produced so far by the map range
			if c, ok := e.st.cells[e.li.idxCell]; ok {
				return Val{c, SInt, types.Typ[types.Int]}, true
			}
			return Val{"0", SInt, types.Typ[types.Int]}, true
		}
		if e.li != nil && e.li.idxCell != "" {
			idx := f.getCell(e.localState(), e.li.idxCell, SInt)
			return Val{sx("+", idx, "1"), SInt, types.Typ[types.Int]}, true
		}
		e.fail("$i outside a range loop")
		return Val{"0", SInt, nil}, true
	case "emptyStr":
		return Val{"emptyStr", SStr, types.Typ[types.String]}, true
	}
	if strings.HasPrefix(name, "result") {
		var k int
		if _, err := fmt.Sscanf(name, "result%d", &k); err == nil && k < len(e.results) {
			if v, ok := evAsVal(e.results[k]); ok {
				return v, true
			}
		}
	}
	for i, rn := range e.resNames {
		if rn == name && rn != "" && i < len(e.results) {
			if v, ok := evAsVal(e.results[i]); ok {
				return v, true
			}
		}
	}
	// locals of the frame
	if e.locals != nil {
		base, ord := name, -1
		if i := strings.Index(name, "#"); i > 0 {
			base = name[:i]
			fmt.Sscanf(name[i+1:], "%d", &ord)
		}
		if as := e.locals.localsByName[base]; len(as) > 0 {
			var a *ssa.Alloc
			if ord >= 0 && ord < len(as) {
				a = as[ord]
			} else if len(as) == 1 {
				a = as[0]
			} else {
				// several locals share the name: the most recently allocated one
				a = as[len(as)-1]
			}
			if p, ok := e.locals.vals[a].(*Ptr); ok {
				st := e.st
				if strings.HasPrefix(p.root, "L:") {
					st = e.localState()
				}
				v := f.loadPtr(st, p)
				return v, true
			}
			if v, ok := e.locals.vals[a].(Val); ok { // heap-allocated local holding a struct
				return v, true
			}
		}
	}
	// ghost cells
	if s, ok := vc.P.ghosts[name]; ok {
		return Val{f.getCell(e.st, "ghost:"+name, s), s, nil}, true
	}
	// package-level constant or variable
	if e.pkg != nil {
		if obj := e.pkg.Scope().Lookup(name); obj != nil {
			return e.objVal(obj)
		}
	}
	// spec constants
	if s, ok := vc.P.specConsts[name]; ok {
		vc.P.needSym[name] = true
		return Val{name, s, nil}, true
	}
	return Val{}, false
}

func (e *Env) objVal(obj types.Object) (Val, bool) {
	vc := e.f.vc
	switch o := obj.(type) {
	case *types.Const:
		switch o.Val().Kind() {
		case constant.Int:
			return Val{intLit(o.Val().ExactString()), SInt, o.Type()}, true
		case constant.Bool:
			if constant.BoolVal(o.Val()) {
				return Val{"true", SBool, o.Type()}, true
			}
			return Val{"false", SBool, o.Type()}, true
		case constant.String:
			return vc.strLit(constant.StringVal(o.Val()), o.Type()), true
		case constant.Float:
			fl, _ := constant.Float64Val(o.Val())
			return Val{fpLit(fl), SFP, o.Type()}, true
		}
	case *types.Var:
		key := "G:" + o.Pkg().Name() + "." + o.Name()
		s := vc.sortOf(o.Type())
		return Val{e.f.getCell(e.st, key, s), s, o.Type()}, true
	}
	return Val{}, false
}

func (e *Env) eval(x *Expr) Val {
	f := e.f
	vc := f.vc
	switch x.Op {
	case "num":
		n := new(big.Int)
		if _, ok := n.SetString(x.Name, 0); !ok {
			e.fail("bad number %s", x.Name)
		}
		return Val{bigLit(n), SInt, nil}
	case "fnum":
		var fl float64
		fmt.Sscanf(x.Name, "%g", &fl)
		return Val{fpLit(fl), SFP, types.Typ[types.Float64]}
	case "pow":
		a, b := e.eval(x.Args[0]), e.eval(x.Args[1])
		ai, ok1 := new(big.Int).SetString(a.t, 10)
		bi, ok2 := new(big.Int).SetString(b.t, 10)
		if !ok1 || !ok2 {
			e.fail("^ needs literal operands")
			return Val{"0", SInt, nil}
		}
		return Val{new(big.Int).Exp(ai, bi, nil).String(), SInt, nil}
	case "str":
		return vc.strLit(x.Name, types.Typ[types.String])
	case "id":
		if v, ok := e.lookupID(x.Name); ok {
			return v
		}
		e.fail("unknown identifier %q", x.Name)
		return Val{"0", SInt, nil}
	case "old":
		if e.old == nil {
			e.fail("old() not available here")
			return e.eval(x.Args[0])
		}
		return e.withState(e.old).eval(x.Args[0])
	case "un":
		a := e.eval(x.Args[0])
		if x.Name == "!" {
			return Val{not(a.t), SBool, a.gt}
		}
		return Val{sx("-", a.t), SInt, nil}
	case "bin":
		return e.evalBin(x)
	case "forall", "exists":
		ne := e
		var decl []string
		for _, qv := range x.Vars {
			s, gt := e.quantSort(qv.Type)
			ne = ne.bind(qv.Name, Val{qv.Name, s, gt})
			decl = append(decl, fmt.Sprintf("(%s %s)", qv.Name, s))
		}
		ne2 := *ne
		ne2.underQuant = true
		vc.quantDepth++
		nq := len(vc.quantVars)
		for _, qv := range x.Vars {
			vc.quantVars = append(vc.quantVars, qv.Name)
		}
		body := ne2.evalBool(x.Args[0])
		vc.quantVars = vc.quantVars[:nq]
		vc.quantDepth--
		return Val{fmt.Sprintf("(%s (%s) %s)", x.Op, strings.Join(decl, " "), body), SBool, nil}
	case "sel":
		return e.evalSel(x)
	case "index":
		return e.evalIndex(x)
	case "call":
		return e.evalCall(x)
	case "mcall":
		return e.evalMCall(x)
	}
	e.fail("unsupported expression %s", x.Op)
	return Val{"0", SInt, nil}
}

func (e *Env) quantSort(t string) (Sort, types.Type) {
	switch t {
	case "int", "Int":
		return SInt, nil
	case "bool":
		return SBool, nil
	case "Str", "string":
		return SStr, types.Typ[types.String]
	case "BS":
		return SBS, nil
	case "Ref":
		return SInt, nil
	}
	if gt := e.lookupType(t); gt != nil {
		return e.f.vc.sortOf(gt), gt
	}
	e.fail("unknown quantifier type %q", t)
	return SInt, nil
}

// lookupType resolves "T", "*T", "pkg.T", "*pkg.T" in the scope of the contract's package.
func (e *Env) lookupType(t string) types.Type {
	if strings.HasPrefix(t, "[]") {
		if et := e.lookupType(t[2:]); et != nil {
			return types.NewSlice(et)
		}
		return nil
	}
	ptr := false
	if strings.HasPrefix(t, "*") {
		ptr = true
		t = t[1:]
	}
	var obj types.Object
	if i := strings.Index(t, "."); i > 0 {
		pn, tn := t[:i], t[i+1:]
		for _, p := range e.f.vc.P.allTypesPkgs() {
			if p.Name() == pn {
				if o := p.Scope().Lookup(tn); o != nil {
					obj = o
					break
				}
			}
		}
	} else if e.pkg != nil {
		obj = e.pkg.Scope().Lookup(t)
	}
	if tn, ok := obj.(*types.TypeName); ok {
		if ptr {
			return types.NewPointer(tn.Type())
		}
		return tn.Type()
	}
	return nil
}

func (e *Env) evalBin(x *Expr) Val {
	op := x.Name
	switch op {
	case "&&":
		return Val{and(e.evalBool(x.Args[0]), e.evalBool(x.Args[1])), SBool, nil}
	case "||":
		return Val{or(e.evalBool(x.Args[0]), e.evalBool(x.Args[1])), SBool, nil}
	case "==>":
		return Val{implies(e.evalBool(x.Args[0]), e.evalBool(x.Args[1])), SBool, nil}
	}
	a, b := e.eval(x.Args[0]), e.eval(x.Args[1])
	if isBV(a.s) || isBV(b.s) {
		if v, ok := e.bvBin(op, a, b); ok {
			return v
		}
		e.fail("operator %s on %s and %s (mode bv)", op, a.s, b.s)
		return Val{"true", SBool, nil}
	}
	switch op {
	case "==", "!=":
		t := e.specEqual(a, b)
		if op == "!=" {
			t = not(t)
		}
		return Val{t, SBool, nil}
	case "<", "<=", ">", ">=":
		if a.s == SFP {
			m := map[string]string{"<": "fp.lt", "<=": "fp.leq", ">": "fp.gt", ">=": "fp.geq"}
			return Val{sx(m[op], a.t, b.t), SBool, nil}
		}
		return Val{sx(op, a.t, b.t), SBool, nil}
	case "+", "-", "*":
		return Val{sx(op, a.t, b.t), SInt, nil}
	case "/":
		return Val{sx("div", a.t, b.t), SInt, nil}
	case "%":
		return Val{sx("mod", a.t, b.t), SInt, nil}
	}
	e.fail("unknown operator %s", op)
	return Val{"true", SBool, nil}
}

// specEqual: == in contracts. On byte strings it is content equality; nil is typed by the other side.
func (e *Env) specEqual(a, b Val) string {
	if a.s == "NIL" {
		a, b = b, a
	}
	if b.s == "NIL" {
		switch {
		case a.s == SInt:
			return eq(a.t, "0")
		case a.s == SIface:
			return eq(sx("i_typ", a.t), "0")
		case a.s == SBS:
			return sx("bs_nil", a.t)
		case strings.HasPrefix(a.s, "Slice_"):
			return sx("nil_"+a.s, a.t)
		}
		e.fail("nil compared with %s", a.s)
		return "true"
	}
	if a.s == SBS && b.s == SBS {
		return eq(sx("bs_c", a.t), sx("bs_c", b.t))
	}
	if a.s == SBS && b.s == SStr {
		return eq(sx("bs_c", a.t), b.t)
	}
	if a.s == SStr && b.s == SBS {
		return eq(a.t, sx("bs_c", b.t))
	}
	if a.s != b.s {
		e.fail("comparison of %s with %s (%s vs %s)", a.s, b.s, a.t, b.t)
		return "true"
	}
	return eq(a.t, b.t)
}

func derefType(t types.Type) (types.Type, bool) {
	if t == nil {
		return nil, false
	}
	if p, ok := t.Underlying().(*types.Pointer); ok {
		return p.Elem(), true
	}
	return t, false
}

func (e *Env) evalSel(x *Expr) Val {
	f := e.f
	vc := f.vc
	// package-qualified name?
	if x.Args[0].Op == "id" {
		if _, isVal := e.lookupID(x.Args[0].Name); !isVal {
			for _, p := range vc.P.allTypesPkgs() {
				if p.Name() == x.Args[0].Name {
					if obj := p.Scope().Lookup(x.Name); obj != nil {
						if v, ok := e.objVal(obj); ok {
							return v
						}
					}
				}
			}
			e.fail("unknown identifier %q", x.Args[0].Name)
			return Val{"0", SInt, nil}
		}
	}
	base := e.eval(x.Args[0])
	if base.gt == nil {
		e.fail("field %s of untyped value %s", x.Name, exprSrc(x.Args[0]))
		return Val{"0", SInt, nil}
	}
	et, isPtr := derefType(base.gt)
	st, ok := et.Underlying().(*types.Struct)
	if !ok {
		e.fail("field %s of non-struct %s", x.Name, base.gt)
		return Val{"0", SInt, nil}
	}
	idx := -1
	for i := 0; i < st.NumFields(); i++ {
		if st.Field(i).Name() == x.Name {
			idx = i
		}
	}
	if idx < 0 {
		// promoted field through an embedded struct (one level)
		for i := 0; i < st.NumFields(); i++ {
			if st.Field(i).Embedded() {
				if est, ok := st.Field(i).Type().Underlying().(*types.Struct); ok {
					for j := 0; j < est.NumFields(); j++ {
						if est.Field(j).Name() == x.Name {
							inner := &Expr{Op: "sel", Name: st.Field(i).Name(), Args: x.Args}
							return e.evalSel(&Expr{Op: "sel", Name: x.Name, Args: []*Expr{inner}})
						}
					}
				}
			}
		}
		e.fail("no field %s in %s", x.Name, et)
		return Val{"0", SInt, nil}
	}
	ft := st.Field(idx).Type()
	fs := vc.sortOf(ft)
	if isPtr {
		arr := f.getCell(e.st, f.heapKey(et, x.Name), "(Array Int "+fs+")")
		r := Val{sx("select", arr, base.t), fs, ft}
		if !e.underQuant {
			f.assumeAlive(e.st, r)
			if wt := vc.S.wellTyped(r.t, ft, 1); wt != "true" && len(r.t) < 400 {
				vc.assume(wt) // heap fields hold values of their Go type
			}
		}
		return r
	}
	return Val{sx(vc.S.fieldSel(base.s, st, idx), base.t), fs, ft}
}

func (e *Env) evalIndex(x *Expr) Val {
	f := e.f
	vc := f.vc
	base := e.eval(x.Args[0])
	idx := e.eval(x.Args[1])
	switch {
	case strings.HasPrefix(base.s, "Slice_"):
		et := vc.S.elemOf[base.s]
		if base.gt != nil {
			if sl, ok := base.gt.Underlying().(*types.Slice); ok {
				et = sl.Elem() // the sort only determines the element sort; the Go type comes from the value
			}
		}
		return Val{sx("select", sx("el_"+base.s, base.t), idx.t), vc.sortOf(et), et}
	case strings.HasPrefix(base.s, "(Array "):
		// spec-level array (set or sequence)
		rs := arrayRange(base.s)
		var et types.Type
		if base.gt != nil {
			if a, ok := base.gt.Underlying().(*types.Array); ok {
				et = a.Elem()
			}
		}
		k := idx.t
		if idx.s == SBS && strings.HasPrefix(base.s, "(Array Str") {
			k = sx("bs_c", idx.t)
		}
		return Val{sx("select", base.t, k), rs, et}
	case base.gt != nil:
		if mt, ok := base.gt.Underlying().(*types.Map); ok {
			mc, ms := f.mapContent(e.st, base.t, base.gt)
			in := and(sx("distinct", base.t, "0"), sx("select", sx("dom_"+ms, mc), idx.t))
			return Val{ite(in, sx("select", sx("val_"+ms, mc), idx.t), vc.S.zero(mt.Elem())), vc.sortOf(mt.Elem()), mt.Elem()}
		}
	}
	e.fail("indexing into %s unsupported", base.s)
	return Val{"0", SInt, nil}
}

func arrayRange(s Sort) Sort {
	// "(Array K V)" -> V ; K has no spaces unless parenthesised
	inner := strings.TrimSuffix(strings.TrimPrefix(s, "(Array "), ")")
	d := 0
	for i, c := range inner {
		if c == '(' {
			d++
		} else if c == ')' {
			d--
		} else if c == ' ' && d == 0 {
			return inner[i+1:]
		}
	}
	return inner
}

func (e *Env) evalCall(x *Expr) Val {
	f := e.f
	vc := f.vc
	switch x.Name {
	case "len":
		a := e.eval(x.Args[0])
		switch {
		case strings.HasPrefix(a.s, "Slice_"):
			return Val{sx("len_"+a.s, a.t), SInt, types.Typ[types.Int]}
		case a.s == SBS:
			return Val{sx("strlen", sx("bs_c", a.t)), SInt, types.Typ[types.Int]}
		case a.s == SStr:
			return Val{sx("strlen", a.t), SInt, types.Typ[types.Int]}
		}
		if a.gt != nil {
			if _, ok := a.gt.Underlying().(*types.Map); ok {
				return Val{f.mapLen(e.st, a.t, a.gt), SInt, types.Typ[types.Int]}
			}
		}
		e.fail("len of %s", a.s)
		return Val{"0", SInt, nil}
	case "cap":
		a := e.eval(x.Args[0])
		vc.declareFun("chan_cap", []Sort{SInt}, SInt)
		return Val{sx("chan_cap", a.t), SInt, types.Typ[types.Int]}
	case "done_observed": // done_observed(ctx): a receive from ctx.Done() succeeded (so the context is cancelled)
		a := e.eval(x.Args[0])
		vc.declareFun("ctx_done", []Sort{SIface}, SInt)
		rc := f.getCell(e.st, "ghost:recvd", "(Array Int Bool)")
		return Val{sx("select", rc, sx("ctx_done", a.t)), SBool, nil}
	case "isnil":
		a := e.eval(x.Args[0])
		return Val{e.specEqual(a, Val{"NIL", "NIL", nil}), SBool, nil}
	case "mathint", "int", "uint", "uint64", "int64":
		return e.eval(x.Args[0])
	case "has": // has(m, k): key in map domain
		m := e.eval(x.Args[0])
		k := e.eval(x.Args[1])
		if m.gt != nil {
			if _, ok := m.gt.Underlying().(*types.Map); ok {
				mc, ms := f.mapContent(e.st, m.t, m.gt)
				return Val{and(sx("distinct", m.t, "0"), sx("select", sx("dom_"+ms, mc), k.t)), SBool, nil}
			}
		}
		e.fail("has() on non-map")
		return Val{"true", SBool, nil}
	case "seq_len", "seq_at": // seq_len(msg, "Field") / seq_at(msg, "Field", k): the sequence a membuffers iterator enumerates (A-ITER)
		m := e.eval(x.Args[0])
		field := x.Args[1].Name
		lenF, atF := "|seq_len:"+field+"|", "|seq_at:"+field+"|"
		vc.declareFun(lenF, []Sort{SInt}, SInt)
		vc.declareFun(atF, []Sort{SInt, SInt}, SInt)
		if x.Name == "seq_len" {
			vc.assume(and(sx("<=", "0", sx(lenF, m.t)), sx("<=", sx(lenF, m.t), "9223372036854775807")))
			return Val{sx(lenF, m.t), SInt, types.Typ[types.Int]}
		}
		k := e.eval(x.Args[2])
		var et types.Type
		if m.gt != nil {
			if obj, _, _ := types.LookupFieldOrMethod(m.gt, true, nil, field+"Iterator"); obj != nil {
				if fo, ok := obj.(*types.Func); ok {
					it := fo.Type().(*types.Signature).Results().At(0).Type()
					if nobj, _, _ := types.LookupFieldOrMethod(it, true, nil, "Next"+field); nobj != nil {
						et = nobj.(*types.Func).Type().(*types.Signature).Results().At(0).Type()
					}
				}
			}
		}
		if et == nil {
			e.fail("seq_at: cannot find %sIterator on %v", field, m.gt)
		}
		return Val{sx(atF, m.t, k.t), SInt, et}
	case "iter_pos":
		it := e.eval(x.Args[0])
		pos := f.getCell(e.st, "ghost:iterpos", "(Array Int Int)")
		return Val{sx("select", pos, it.t), SInt, types.Typ[types.Int]}
	case "iter_src":
		it := e.eval(x.Args[0])
		vc.declareFun("iter_src", []Sort{SInt}, SInt)
		return Val{sx("iter_src", it.t), SInt, nil}
	case "deref": // deref(p): the struct value a pointer refers to
		a := e.eval(x.Args[0])
		if et, isPtr := derefType(a.gt); isPtr {
			if _, isStruct := et.Underlying().(*types.Struct); isStruct {
				return f.loadStruct(e.st, a.t, et)
			}
			s := vc.sortOf(et)
			arr := f.getCell(e.st, "D:"+vc.S.typeName(et), "(Array Int "+s+")")
			return Val{sx("select", arr, a.t), s, et}
		}
		e.fail("deref of non-pointer")
		return a
	case "content": // content(bs) : Str
		a := e.eval(x.Args[0])
		if a.s == SBS {
			return Val{sx("bs_c", a.t), SStr, types.Typ[types.String]}
		}
		return a
	case "ite":
		c := e.evalBool(x.Args[0])
		a, b := e.eval(x.Args[1]), e.eval(x.Args[2])
		return Val{ite(c, a.t, b.t), a.s, a.gt}
	case "typeof": // dynamic type id of an interface value compared via istype
		a := e.eval(x.Args[0])
		return Val{sx("i_typ", a.t), SInt, nil}
	case "istype": // istype(x, T)
		a := e.eval(x.Args[0])
		tn := exprTypeName(x.Args[1])
		gt := e.lookupType(tn)
		if gt == nil {
			e.fail("unknown type %s", tn)
			return Val{"true", SBool, nil}
		}
		return Val{eq(sx("i_typ", a.t), fmt.Sprint(vc.S.typeID(gt))), SBool, nil}
	case "dyn": // dyn(x, T): payload of interface value as *T
		a := e.eval(x.Args[0])
		gt := e.lookupType(exprTypeName(x.Args[1]))
		return Val{sx("i_val", a.t), SInt, gt}
	case "ref": // ref(x, *T): a ghost reference (Int) viewed as a pointer of type *T
		a := e.eval(x.Args[0])
		gt := e.lookupType(exprTypeName(x.Args[1]))
		if gt == nil {
			e.fail("unknown type %s", exprTypeName(x.Args[1]))
		}
		return Val{a.t, SInt, gt}
	case "visited": // visited(k): key already produced by the enclosing map-range loop
		if e.li != nil && e.li.iterVal != nil {
			k := e.eval(x.Args[0])
			visKey := "V:" + f.prefix + ":" + e.li.iterVal.Name()
			if vis, ok := e.st.cells[visKey]; ok {
				return Val{sx("select", vis, k.t), SBool, nil}
			}
			return Val{"false", SBool, nil}
		}
		e.fail("visited() outside map range loop")
		return Val{"false", SBool, nil}
	}
	// contract-level predicate (macro)
	if pr, ok := vc.P.contracts.Preds[x.Name]; ok && pr.Body != nil {
		if len(x.Args) != len(pr.Params) {
			e.fail("pred %s expects %d arguments", x.Name, len(pr.Params))
			return Val{"true", SBool, nil}
		}
		ne := *e
		ne.names = map[string]EV{}
		ne.locals = nil
		ne.li = nil
		if pk := vc.P.pkgByName[pr.Pkg]; pk != nil {
			ne.pkg = pk
		}
		for i, a := range x.Args {
			v := e.eval(a)
			// declared parameter types give untyped arguments (e.g. nil, spec values) a Go type
			if v.gt == nil {
				if gt := ne.lookupType(pr.Params[i].Type); gt != nil {
					v.gt = gt
				}
			}
			ne.names[pr.Params[i].Name] = v
		}
		// quantifier-bound variables of the caller stay visible
		for k, v := range e.names {
			if sv, ok := v.(Val); ok && sv.t == k {
				if _, shadow := ne.names[k]; !shadow {
					ne.names[k] = v
				}
			}
		}
		return ne.eval(pr.Body)
	}
	// spec function from the prelude
	if sf, ok := vc.P.specFuncs[x.Name]; ok {
		var args []string
		for i, a := range x.Args {
			v := e.eval(a)
			if i < len(sf.args) && v.s != sf.args[i] {
				if v.s == SBS && sf.args[i] == SStr {
					v = Val{sx("bs_c", v.t), SStr, nil}
				} else if v.s == "NIL" {
					v = Val{"0", SInt, nil}
				} else {
					e.fail("spec function %s: argument %d has sort %s, want %s", x.Name, i, v.s, sf.args[i])
				}
			}
			args = append(args, v.t)
		}
		vc.P.needSym[x.Name] = true
		return Val{sx(x.Name, args...), sf.res, sf.gt}
	}
	// pure Go function of the contract's package
	if e.pkg != nil {
		if obj, ok := e.pkg.Scope().Lookup(x.Name).(*types.Func); ok {
			if fn := vc.P.prog.FuncValue(obj); fn != nil {
				var args []Val
				for _, a := range x.Args {
					args = append(args, e.eval(a))
				}
				return e.pureApply(fn, args)
			}
		}
	}
	e.fail("unknown function %s", x.Name)
	return Val{"0", SInt, nil}
}

func exprTypeName(x *Expr) string {
	switch x.Op {
	case "id":
		return x.Name
	case "sel":
		return exprTypeName(x.Args[0]) + "." + x.Name
	case "un":
		return "*" + exprTypeName(x.Args[0])
	case "bin":
		if x.Name == "*" {
			return "*" + exprTypeName(x.Args[1])
		}
	}
	return x.Name
}

// pureApply applies a repo function inside a contract expression: as UF if it is pure, by inlining otherwise.
func (e *Env) pureApply(fn *ssa.Function, args []Val) Val {
	f := e.f
	vc := f.vc
	key := vc.P.fnKey(fn)
	if v, ok := f.modelCall(key, fn.Signature, args, e.st, true); ok {
		if sv, ok := v.(Val); ok {
			return sv
		}
	}
	if con := vc.P.contracts.ByKey[key]; con != nil && con.Pure {
		return vc.applyUF(key, fn.Signature, args, 0)
	}
	if vc.P.isPure(key) {
		return vc.applyUF(key, fn.Signature, args, 0)
	}
	if fn.Blocks != nil && vc.P.inRepo(fn) {
		// side-effect-free evaluation of an accessor in the given state
		save := vc.specMode
		vc.specMode = true
		var evs []EV
		for _, a := range args {
			evs = append(evs, a)
		}
		res, _, _ := f.inlineCall(fn, evs, nil, e.st.clone(), "true")
		vc.specMode = save
		if len(res) >= 1 {
			if v, ok := evAsVal(res[0]); ok {
				return v
			}
		}
	}
	e.fail("function %s cannot be used in a contract (not pure, not inlinable)", key)
	return Val{"0", SInt, nil}
}

func (e *Env) evalMCall(x *Expr) Val {
	f := e.f
	vc := f.vc
	// package-qualified function: pkg.F(args)
	if x.Args[0].Op == "id" {
		if _, isVal := e.lookupID(x.Args[0].Name); !isVal {
			for _, p := range vc.P.allTypesPkgs() {
				if p.Name() != x.Args[0].Name {
					continue
				}
				if fo, ok := p.Scope().Lookup(x.Name).(*types.Func); ok {
					var args []Val
					for _, a := range x.Args[1:] {
						args = append(args, e.eval(a))
					}
					if fn := vc.P.prog.FuncValue(fo); fn != nil {
						return e.pureApply(fn, args)
					}
					// function of a dependency known only from export data
					key := p.Name() + "." + x.Name
					sig := fo.Type().(*types.Signature)
					if v, ok := f.modelCall(key, sig, args, e.st, true); ok {
						if sv, ok := v.(Val); ok {
							return sv
						}
					}
					if vc.P.isPure(key) {
						return vc.applyUF(key, sig, args, 0)
					}
				}
			}
			e.fail("unknown package function %s.%s", x.Args[0].Name, x.Name)
			return Val{"0", SInt, nil}
		}
	}
	recv := e.eval(x.Args[0])
	if recv.gt == nil {
		e.fail("method %s on untyped value %s", x.Name, exprSrc(x.Args[0]))
		return Val{"0", SInt, nil}
	}
	var args []Val
	args = append(args, recv)
	for _, a := range x.Args[1:] {
		args = append(args, e.eval(a))
	}
	// interface method
	if it, ok := recv.gt.Underlying().(*types.Interface); ok {
		for i := 0; i < it.NumMethods(); i++ {
			if m := it.Method(i); m.Name() == x.Name {
				key := "iface:" + vc.S.typeName(recv.gt) + "." + x.Name
				if n, ok := recv.gt.(*types.Named); ok {
					key = "iface:" + vc.P.ifaceMethodOwner(n, x.Name) + "." + x.Name
				}
				if v, ok := f.modelCall(key, m.Type().(*types.Signature), args, e.st, true); ok {
					if sv, ok := v.(Val); ok {
						return sv
					}
				}
				r := vc.applyUF(key, m.Type().(*types.Signature), args, 0)
				if !e.underQuant {
					f.devirtualiseIn(it, x.Name, args, e.st, r)
				}
				return r
			}
		}
		e.fail("no method %s on %s", x.Name, recv.gt)
		return Val{"0", SInt, nil}
	}
	obj, _, _ := types.LookupFieldOrMethod(recv.gt, true, e.pkg, x.Name)
	if obj == nil {
		// unexported method of another package
		if n, ok := derefNamed(recv.gt); ok {
			for i := 0; i < n.NumMethods(); i++ {
				if n.Method(i).Name() == x.Name {
					obj = n.Method(i)
				}
			}
		}
	}
	fo, ok := obj.(*types.Func)
	if !ok {
		e.fail("no method %s on %s", x.Name, recv.gt)
		return Val{"0", SInt, nil}
	}
	fn := vc.P.prog.FuncValue(fo)
	if fn == nil {
		e.fail("method %s on %s has no SSA function", x.Name, recv.gt)
		return Val{"0", SInt, nil}
	}
	// value receiver invoked on pointer or vice versa
	sig := fn.Signature
	if sig.Recv() != nil {
		_, wantPtr := sig.Recv().Type().Underlying().(*types.Pointer)
		_, havePtr := recv.gt.Underlying().(*types.Pointer)
		if !wantPtr && havePtr {
			et, _ := derefType(recv.gt)
			if _, isStruct := et.Underlying().(*types.Struct); isStruct {
				args[0] = f.loadStruct(e.st, recv.t, et)
			}
		}
	}
	return e.pureApply(fn, args)
}

func derefNamed(t types.Type) (*types.Named, bool) {
	if p, ok := t.(*types.Pointer); ok {
		t = p.Elem()
	}
	n, ok := t.(*types.Named)
	return n, ok
}
