package main

// Mapping of Go types to SMT sorts (DESIGN §2.4) and well-typedness facts.

import (
	"fmt"
	"go/types"
	"math/big"
	"sort"
	"strings"
)

type SortReg struct {
	decls    []string          // datatype declarations in dependency order
	known    map[string]bool   // sort name -> declared
	structs  map[string]*types.Struct
	typeIDs  map[string]int
	qual     types.Qualifier
	elemOf   map[string]types.Type // Slice sort -> element Go type
	structOf map[string]types.Type // struct sort -> named type
	bv       bool                  // mode bv: Go integers are bit-vectors
}

func newSortReg() *SortReg {
	return &SortReg{known: map[string]bool{}, structs: map[string]*types.Struct{}, typeIDs: map[string]int{},
		qual: func(p *types.Package) string { return p.Name() }, elemOf: map[string]types.Type{}, structOf: map[string]types.Type{}}
}

func (r *SortReg) typeName(t types.Type) string { return types.TypeString(t, r.qual) }

func mangle(s string) string {
	var b strings.Builder
	for _, c := range s {
		switch {
		case c >= 'a' && c <= 'z', c >= 'A' && c <= 'Z', c >= '0' && c <= '9', c == '_':
			b.WriteRune(c)
		case c == '.':
			b.WriteString("_")
		case c == '*':
			b.WriteString("P")
		case c == '[':
			b.WriteString("L")
		case c == ']':
			b.WriteString("J")
		default:
			b.WriteString("_")
		}
	}
	return b.String()
}

func isByteSlice(t types.Type) bool {
	if s, ok := t.Underlying().(*types.Slice); ok {
		if b, ok := s.Elem().Underlying().(*types.Basic); ok && b.Kind() == types.Uint8 {
			return true
		}
	}
	return false
}

func isInteger(t types.Type) bool {
	b, ok := t.Underlying().(*types.Basic)
	return ok && b.Info()&types.IsInteger != 0
}

func isFloat(t types.Type) bool {
	b, ok := t.Underlying().(*types.Basic)
	return ok && b.Info()&types.IsFloat != 0
}

func (r *SortReg) sortOf(t types.Type) Sort {
	switch u := t.Underlying().(type) {
	case *types.Basic:
		switch {
		case u.Info()&types.IsBoolean != 0:
			return SBool
		case u.Info()&types.IsInteger != 0:
			if r.bv {
				w, _, _ := bvWidth(t)
				return bvSort(w)
			}
			return SInt
		case u.Info()&types.IsString != 0:
			return SStr
		case u.Info()&types.IsFloat != 0:
			return SFP
		case u.Kind() == types.UnsafePointer, u.Kind() == types.UntypedNil:
			return SInt
		}
		return SInt
	case *types.Pointer, *types.Map, *types.Chan, *types.Signature:
		return SInt
	case *types.Interface:
		return SIface
	case *types.Slice:
		if isByteSlice(t) {
			return SBS
		}
		es := r.sortOf(u.Elem())
		name := "Slice_" + mangle(es)
		if !r.known[name] {
			r.known[name] = true
			r.elemOf[name] = u.Elem()
			r.decls = append(r.decls, fmt.Sprintf("(declare-datatypes ((%s 0)) (((mk_%s (nil_%s Bool) (len_%s Int) (el_%s (Array Int %s))))))", name, name, name, name, name, es))
		}
		return name
	case *types.Array:
		es := r.sortOf(u.Elem())
		return "(Array Int " + es + ")"
	case *types.Struct:
		var name string
		if n, ok := t.(*types.Named); ok {
			name = "S_" + mangle(r.typeName(n))
			if r.bv {
				name = "Sbv_" + mangle(r.typeName(n))
			}
		} else if u.NumFields() == 0 {
			name = "S_empty"
		} else {
			name = "S_anon_" + mangle(r.typeName(t))
		}
		if !r.known[name] {
			r.known[name] = true
			r.structs[name] = u
			r.structOf[name] = t
			var fs []string
			for i := 0; i < u.NumFields(); i++ {
				fs = append(fs, fmt.Sprintf("(%s (%s))", r.fieldSel(name, u, i), r.sortOf(u.Field(i).Type())))
			}
			// sortOf of fields may have appended their decls first (dependency order)
			if len(fs) == 0 {
				r.decls = append(r.decls, fmt.Sprintf("(declare-datatypes ((%s 0)) (((mk_%s))))", name, name))
			} else {
				// fix "(sel (Sort))" -> "(sel Sort)"
				for i := range fs {
					f := u.Field(i)
					fs[i] = fmt.Sprintf("(%s %s)", r.fieldSel(name, u, i), r.sortOf(f.Type()))
				}
				r.decls = append(r.decls, fmt.Sprintf("(declare-datatypes ((%s 0)) (((mk_%s %s))))", name, name, strings.Join(fs, " ")))
			}
		}
		return name
	case *types.Tuple:
		return "TUPLE"
	}
	return SInt
}

func (r *SortReg) fieldSel(sortName string, u *types.Struct, i int) string {
	return "f_" + sortName + "_" + u.Field(i).Name()
}

func (r *SortReg) typeID(t types.Type) int {
	k := r.typeName(t)
	if id, ok := r.typeIDs[k]; ok {
		return id
	}
	id := len(r.typeIDs) + 1
	r.typeIDs[k] = id
	return id
}

func (r *SortReg) typeIDTable() string {
	var ks []string
	for k, v := range r.typeIDs {
		ks = append(ks, fmt.Sprintf("%d=%s", v, k))
	}
	sort.Strings(ks)
	return strings.Join(ks, ", ")
}

// constArr: an array that maps every index to val. cvc5 only accepts constant-array literals whose element is a
// value, so defaults that mention the uninterpreted constant emptyStr become a named array with an axiom.
func (r *SortReg) constArr(ks, vs Sort, val string) string {
	if !strings.Contains(val, "emptyStr") && !strings.Contains(val, "zarr_") {
		return fmt.Sprintf("((as const (Array %s %s)) %s)", ks, vs, val)
	}
	name := "zarr_" + mangle(ks) + "_" + mangle(vs)
	if !r.known[name] {
		r.known[name] = true
		r.decls = append(r.decls, fmt.Sprintf("(declare-const %s (Array %s %s))", name, ks, vs),
			fmt.Sprintf("(assert (forall ((zi %s)) (! (= (select %s zi) %s) :pattern ((select %s zi)))))", ks, name, val, name))
	}
	return name
}

func (r *SortReg) zero(t types.Type) string {
	s := r.sortOf(t)
	return r.zeroOfSort(s, t)
}

func (r *SortReg) zeroOfSort(s Sort, t types.Type) string {
	switch {
	case s == SInt:
		return "0"
	case isBV(s):
		return bvLit(big.NewInt(0), bvWidthOfSort(s))
	case s == SBool:
		return "false"
	case s == SStr:
		return "emptyStr"
	case s == SBS:
		return "(mkBS emptyStr true)"
	case s == SIface:
		return "(mkI 0 0)"
	case s == SFP:
		return "(_ +zero 11 53)"
	case strings.HasPrefix(s, "Slice_"):
		et := r.elemOf[s]
		return fmt.Sprintf("(mk_%s true 0 %s)", s, r.constArr("Int", r.sortOf(et), r.zero(et)))
	case strings.HasPrefix(s, "S_"), strings.HasPrefix(s, "Sbv_"):
		u := r.structs[s]
		if u.NumFields() == 0 {
			return "mk_" + s
		}
		var fs []string
		for i := 0; i < u.NumFields(); i++ {
			fs = append(fs, r.zero(u.Field(i).Type()))
		}
		return sx("mk_"+s, fs...)
	case strings.HasPrefix(s, "(Array Int "):
		if a, ok := t.Underlying().(*types.Array); ok {
			return r.constArr("Int", r.sortOf(a.Elem()), r.zero(a.Elem()))
		}
	}
	return "0"
}

func pow2(n uint) *big.Int { return new(big.Int).Lsh(big.NewInt(1), n) }

func intRange(t types.Type) (lo, hi *big.Int, ok bool) {
	b, isB := t.Underlying().(*types.Basic)
	if !isB || b.Info()&types.IsInteger == 0 {
		return nil, nil, false
	}
	var bits uint
	signed := b.Info()&types.IsUnsigned == 0
	switch b.Kind() {
	case types.Int8, types.Uint8:
		bits = 8
	case types.Int16, types.Uint16:
		bits = 16
	case types.Int32, types.Uint32:
		bits = 32
	case types.Int64, types.Uint64, types.Int, types.Uint, types.Uintptr:
		bits = 64
	default:
		return nil, nil, false // untyped
	}
	if signed {
		lo = new(big.Int).Neg(pow2(bits - 1))
		hi = new(big.Int).Sub(pow2(bits-1), big.NewInt(1))
	} else {
		lo = big.NewInt(0)
		hi = new(big.Int).Sub(pow2(bits), big.NewInt(1))
	}
	return lo, hi, true
}

func bigLit(b *big.Int) string { return intLit(b.String()) }

// wellTyped returns a formula stating that term x is a legal value of Go type t (ranges, len >= 0, nil => empty).
func (r *SortReg) wellTyped(x string, t types.Type, depth int) string {
	if t == nil {
		return "true"
	}
	if lo, hi, ok := intRange(t); ok {
		if r.bv {
			return "true"
		}
		return and(sx("<=", bigLit(lo), x), sx("<=", x, bigLit(hi)))
	}
	s := r.sortOf(t)
	switch {
	case s == SBS:
		return implies(sx("bs_nil", x), eq(sx("bs_c", x), "emptyStr"))
	case strings.HasPrefix(s, "Slice_"):
		f := and(sx("<=", "0", sx("len_"+s, x)), sx("<=", sx("len_"+s, x), "9223372036854775807"), implies(sx("nil_"+s, x), eq(sx("len_"+s, x), "0")))
		if depth < 2 {
			et := r.elemOf[s]
			ew := r.wellTyped(sx("select", sx("el_"+s, x), "wt_i"), et, depth+1)
			if ew != "true" {
				f = and(f, fmt.Sprintf("(forall ((wt_i Int)) (! %s :pattern ((select (el_%s %s) wt_i))))", ew, s, x))
			}
		}
		return f
	case strings.HasPrefix(s, "S_"), strings.HasPrefix(s, "Sbv_"):
		u := r.structs[s]
		var fs []string
		for i := 0; i < u.NumFields(); i++ {
			fs = append(fs, r.wellTyped(sx(r.fieldSel(s, u, i), x), u.Field(i).Type(), depth+1))
		}
		return and(fs...)
	}
	return "true"
}
