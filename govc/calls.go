package main

// Calls (DESIGN §2.5): contracts, dependency models, pure UFs, effect-free skips, inlining.

import (
	"os"
	"encoding/json"
	"fmt"
	"go/token"
	"go/types"
	"path"
	"path/filepath"
	"sort"
	"strings"

	"golang.org/x/tools/go/ssa"
)

func matchAny(pats []string, key string) bool {
	for _, p := range pats {
		if ok, _ := path.Match(p, key); ok {
			return true
		}
		if strings.HasSuffix(p, "*") && strings.HasPrefix(key, strings.TrimSuffix(p, "*")) {
			return true
		}
	}
	return false
}

func (P *Program) isPure(key string) bool { return matchAny(P.contracts.Pure, key) }
func (P *Program) isSkip(key string) bool { return matchAny(P.contracts.Skip, key) }

func (P *Program) inRepo(fn *ssa.Function) bool {
	return fn.Pkg != nil && P.repoPkgs[fn.Pkg.Pkg.Path()]
}

// ifaceMethodOwner: the named interface that declares method m (looking through embedded interfaces).
func (P *Program) ifaceMethodOwner(n *types.Named, m string) string {
	it, ok := n.Underlying().(*types.Interface)
	if !ok {
		return P.sorts.typeName(n)
	}
	for i := 0; i < it.NumExplicitMethods(); i++ {
		if it.ExplicitMethod(i).Name() == m {
			return P.sorts.typeName(n)
		}
	}
	for i := 0; i < it.NumEmbeddeds(); i++ {
		if en, ok := it.EmbeddedType(i).(*types.Named); ok {
			if eit, ok := en.Underlying().(*types.Interface); ok {
				for j := 0; j < eit.NumMethods(); j++ {
					if eit.Method(j).Name() == m {
						return P.ifaceMethodOwner(en, m)
					}
				}
			}
		}
	}
	return P.sorts.typeName(n)
}

// callKey computes the stable key of a call target.
func (P *Program) callKey(f *Frame, c *ssa.CallCommon) (key string, sig *types.Signature, callee *ssa.Function) {
	if c.IsInvoke() {
		sig = c.Method.Type().(*types.Signature)
		t := c.Value.Type()
		if n, ok := t.(*types.Named); ok {
			return "iface:" + P.ifaceMethodOwner(n, c.Method.Name()) + "." + c.Method.Name(), sig, nil
		}
		return "iface:" + P.sorts.typeName(t) + "." + c.Method.Name(), sig, nil
	}
	if fn := c.StaticCallee(); fn != nil {
		if mc, ok := c.Value.(*ssa.MakeClosure); ok {
			_ = mc
		}
		return P.fnKey(fn), fn.Signature, fn
	}
	sig = c.Value.Type().Underlying().(*types.Signature)
	// dynamic call through a function value
	switch v := c.Value.(type) {
	case *ssa.UnOp:
		if v.Op == token.MUL {
			switch a := v.X.(type) {
			case *ssa.FieldAddr:
				if st, named := f.structOfPtr(a.X.Type()); st != nil {
					return "field:" + P.sorts.typeName(named) + "." + st.Field(a.Field).Name(), sig, nil
				}
			case *ssa.Alloc:
				// parameter spilled to a local
				return "param:" + P.fnKey(f.fn) + "." + a.Comment, sig, nil
			case *ssa.FreeVar:
				// function value captured by this closure
				return "freevar:" + P.fnKey(f.fn) + "." + a.Name(), sig, nil
			}
		}
	case *ssa.Parameter:
		return "param:" + P.fnKey(f.fn) + "." + v.Name(), sig, nil
	case *ssa.Field:
		if st, ok := v.X.Type().Underlying().(*types.Struct); ok {
			return "field:" + P.sorts.typeName(v.X.Type()) + "." + st.Field(v.Field).Name(), sig, nil
		}
	}
	return "dynamic:" + P.sorts.typeName(c.Value.Type()), sig, nil
}

// resolveCall classifies a call: contract | model | pure | skip | inline | unknown.
func (P *Program) resolveCall(f *Frame, c *ssa.CallCommon) (string, *Contract, string) {
	key, _, callee := P.callKey(f, c)
	if con := P.lookupContract(key); con != nil && !con.Inline {
		return key, con, "contract"
	}
	if P.hasModel(key) {
		return key, nil, "model"
	}
	if P.isSkip(key) {
		return key, nil, "skip"
	}
	if P.isPure(key) {
		return key, nil, "pure"
	}
	if callee != nil && callee.Blocks != nil && P.inRepo(callee) {
		return key, nil, "inline"
	}
	if _, ok := c.Value.(*ssa.MakeClosure); ok {
		return key, nil, "inline"
	}
	return key, nil, "unknown"
}

func (P *Program) lookupContract(key string) *Contract {
	if c, ok := P.contracts.ByKey[key]; ok {
		return c
	}
	for _, pre := range []string{"iface:", "field:", "param:"} {
		if strings.HasPrefix(key, pre) {
			if c, ok := P.contracts.ByKey["dep:"+key[len(pre):]]; ok {
				return c
			}
			if c, ok := P.contracts.ByKey["iface:"+key[len(pre):]]; ok {
				return c
			}
		}
	}
	if c, ok := P.contracts.ByKey["dep:"+key]; ok {
		return c
	}
	return nil
}

func (P *Program) modKey(m string) string {
	// "T.f" -> heap cell; "ghost:x", "M:..", "G:.." verbatim
	if strings.Contains(m, ":") {
		return m
	}
	if _, ok := P.ghosts[m]; ok {
		return "ghost:" + m
	}
	return "H:" + m
}

// ---------- call execution ----------

func (f *Frame) execCall(c *ssa.CallCommon, result ssa.Value, pos token.Pos) EV {
	vc := f.vc
	if b, ok := c.Value.(*ssa.Builtin); ok {
		return f.execBuiltin(b, c, result, pos)
	}
	key, sig, callee := vc.P.callKey(f, c)
	// arguments (receiver first for invoke)
	var args []EV
	if c.IsInvoke() {
		recv := f.sval(c.Value)
		if !vc.P.isSkip(key) {
			f.safety("nil-call", sx("distinct", sx("i_typ", recv.t), "0"), pos)
		}
		args = append(args, recv)
	}
	for _, a := range c.Args {
		args = append(args, f.val(a))
	}
	var resT types.Type
	if result != nil {
		resT = result.Type()
	} else {
		resT = sig.Results()
	}
	ord := vc.callOrd[key]
	vc.callOrd[key] = ord + 1
	f.siteAsserts(key, ord, args, sig, c, pos)

	_, con, kind := vc.P.resolveCall(f, c)
	// a closure value known at this point is inlined
	if kind == "unknown" || strings.HasPrefix(key, "param:") || strings.HasPrefix(key, "field:") || strings.HasPrefix(key, "dynamic:") || strings.HasPrefix(key, "freevar:") {
		if !c.IsInvoke() && callee == nil {
			if cl, ok := f.val(c.Value).(*Closure); ok && kind != "contract" {
				res, st, _ := f.inlineCall(cl.fn, args, cl.bindings, f.cur, f.curReach)
				f.cur = st
				return packResults(res, resT)
			}
			if kind != "contract" {
				fv := f.sval(c.Value)
				f.safety("nil-call", sx("distinct", fv.t, "0"), pos)
			}
		}
	}
	switch kind {
	case "contract":
		return f.applyContract(con, key, sig, args, resT, ord, pos, c)
	case "model":
		var vals []Val
		ok := true
		for _, a := range args {
			v, isV := evAsVal(a)
			if !isV {
				if p, isP := a.(*Ptr); isP {
					v = Val{"PTR", "PTR", nil}
					_ = p
				} else {
					ok = false
				}
			}
			vals = append(vals, v)
		}
		if ok {
			if r, done := f.modelCallFull(key, sig, vals, args, c, pos); done {
				return r
			}
		}
		vc.errf("%s: model for %s not applicable", vc.P.fnKey(f.fn), key)
		return f.havocResult(resT, key)
	case "skip":
		vc.used["A-LOG"] = true
		return f.havocResult(resT, key)
	case "pure":
		var vals []Val
		for _, a := range args {
			v, ok := evAsVal(a)
			if !ok {
				vc.errf("%s: non-scalar argument to pure function %s", vc.P.fnKey(f.fn), key)
				return f.havocResult(resT, key)
			}
			vals = append(vals, v)
		}
		vc.used["A-PURE:"+pureFamily(key)] = true
		if c.IsInvoke() || len(vals) > 0 {
			// nil receiver of a pure accessor
			if sig.Recv() != nil && len(vals) > 0 && vals[0].s == SInt {
				f.safety("nil-deref", sx("distinct", vals[0].t, "0"), pos)
			}
		}
		n := sig.Results().Len()
		if n <= 1 {
			if n == 0 {
				return Tuple{}
			}
			r := vc.applyUF(key, sig, vals, 0)
			f.assumeAlive(f.cur, r)
			if c.IsInvoke() {
				f.devirtualise(c, key, vals, args, r)
			}
			return r
		}
		var tup Tuple
		for i := 0; i < n; i++ {
			r := vc.applyUF(key, sig, vals, i)
			f.assumeAlive(f.cur, r)
			tup = append(tup, r)
		}
		return tup
	case "inline":
		if f.depth >= vc.P.maxInline {
			vc.errf("%s: inline depth exceeded at %s", vc.P.fnKey(f.fn), key)
			return f.havocResult(resT, key)
		}
		fn := callee
		var fvs []EV
		if mc, ok := c.Value.(*ssa.MakeClosure); ok {
			fn = mc.Fn.(*ssa.Function)
			for _, b := range mc.Bindings {
				fvs = append(fvs, f.val(b))
			}
		}
		if vc.P.inlining[fn] {
			vc.errf("%s: recursive call to %s", vc.P.fnKey(f.fn), key)
			return f.havocResult(resT, key)
		}
		vc.inlined[key] = true
		res, st, _ := f.inlineCall(fn, args, fvs, f.cur, f.curReach)
		f.cur = st
		return packResults(res, resT)
	}
	if c.IsInvoke() && strings.HasPrefix(key, "iface:interfaces.") {
		// A-SPI: a consumer-supplied SPI method without an explicit contract returns arbitrary values and does not
		// touch library state (it is not given any library object it could modify)
		vc.used["A-SPI:"+key] = true
		return f.havocResult(resT, key)
	}
	// effect-free standard-library functions (no pointer, map, channel or function argument through which library state
	// could be reached; no mutator names): arbitrary result, no effect. Listed as assumption A-STD-PURE:<function>.
	if callee != nil && callee.Blocks == nil && callee.Object() != nil && callee.Object().Pkg() != nil && stdPurePkgs[callee.Object().Pkg().Path()] && !stdMutator(callee.Name()) {
		ok := true
		for _, a := range c.Args {
			switch a.Type().Underlying().(type) {
			case *types.Pointer, *types.Map, *types.Chan, *types.Signature:
				ok = false
			}
		}
		if ok {
			vc.used["A-STD-PURE:"+key] = true
			return f.havocResult(resT, key)
		}
	}
	vc.errf("%s: call to %s has no contract, model or body (UNDECIDED)", vc.P.fnKey(f.fn), key)
	// unknown effects: havoc the heap
	f.havocHeap()
	return f.havocResult(resT, key)
}

func pureFamily(key string) string {
	if i := strings.Index(key, "."); i > 0 {
		return strings.TrimLeft(key[:i], "(*")
	}
	return key
}

func packResults(res []EV, resT types.Type) EV {
	if tup, ok := resT.(*types.Tuple); ok {
		if tup.Len() == 1 && len(res) == 1 {
			return res[0]
		}
		return Tuple(res)
	}
	if len(res) == 1 {
		return res[0]
	}
	return Tuple(res)
}

func (f *Frame) havocHeap() {
	// alive survives (monotone) even when everything else is unknown
	oldAl := f.getCell(f.cur, "ghost:alive", aliveSort)
	defer func() {
		newAl := f.vc.fresh("ghost:alive@havoc", aliveSort)
		f.vc.assume(fmt.Sprintf("(forall ((x Int)) (! (=> (select %s x) (select %s x)) :pattern ((select %s x))))", oldAl, newAl, oldAl))
		f.setCell(f.cur, "ghost:alive", aliveSort, newAl)
	}()
	for k := range f.cur.cells {
		if !strings.HasPrefix(k, "L:") && !strings.HasPrefix(k, "V:") {
			delete(f.cur.cells, k)
		}
	}
	f.cur.gen = f.vc.nextGen()
	f.cur.cellGen = map[string]int{}
}

func (f *Frame) havocResult(resT types.Type, base string) EV {
	vc := f.vc
	if resT == nil {
		return Tuple{}
	}
	if tup, ok := resT.(*types.Tuple); ok {
		if tup.Len() == 0 {
			return Tuple{}
		}
		if tup.Len() == 1 {
			return vc.freshVal("res:"+base, tup.At(0).Type())
		}
		var t Tuple
		for i := 0; i < tup.Len(); i++ {
			t = append(t, vc.freshVal(fmt.Sprintf("res%d:%s", i, base), tup.At(i).Type()))
		}
		return t
	}
	return vc.freshVal("res:"+base, resT)
}

// applyUF: result k of a pure function as an uninterpreted function of its arguments.
func (vc *VC) applyUF(key string, sig *types.Signature, args []Val, k int) Val {
	name := "|" + key + "|"
	if sig.Results().Len() > 1 {
		name = fmt.Sprintf("|%s#%d|", key, k)
	}
	rt := sig.Results().At(k).Type()
	rs := vc.sortOf(rt)
	var as []Sort
	var ts []string
	for _, a := range args {
		as = append(as, a.s)
		ts = append(ts, a.t)
	}
	if len(args) == 0 {
		vc.declare(name, rs)
		vc.assume(vc.S.wellTyped(name, rt, 1))
		return Val{name, rs, rt}
	}
	vc.declareFun(name, as, rs)
	app := sx(name, ts...)
	if wt := vc.S.wellTyped(app, rt, 1); wt != "true" && len(app) < 600 {
		vc.assume(wt)
	}
	return Val{app, rs, rt}
}

// inlineCall executes callee's body in the caller's VC. Returns results, exit state, exit reach.
func (f *Frame) inlineCall(fn *ssa.Function, args []EV, freeVars []EV, st *State, reach string) ([]EV, *State, string) {
	vc := f.vc
	if fn.Blocks == nil {
		vc.errf("cannot inline %s: no body", vc.P.fnKey(fn))
		return nil, st, reach
	}
	vc.P.inlining[fn] = true
	defer delete(vc.P.inlining, fn)
	sub := vc.newFrame(fn, f.depth+1, nil)
	// materialise pointer arguments that are locations: unsupported unless callee only derefs them (handled as Ptr values)
	sub.run(args, freeVars, st, reach)
	res, est, er := sub.exit()
	if est == nil {
		// callee never returns on this path (panics): continuation unreachable
		return zeroResults(vc, fn), st, "false"
	}
	return res, est, er
}

func zeroResults(vc *VC, fn *ssa.Function) []EV {
	var res []EV
	for i := 0; i < fn.Signature.Results().Len(); i++ {
		t := fn.Signature.Results().At(i).Type()
		res = append(res, Val{vc.S.zero(t), vc.sortOf(t), t})
	}
	return res
}

// exit merges all return sites of a frame.
func (f *Frame) exit() ([]EV, *State, string) {
	vc := f.vc
	if len(f.rets) == 0 {
		return nil, nil, "false"
	}
	if len(f.rets) == 1 {
		r := f.rets[0]
		return r.vals, r.st, r.reach
	}
	var conds []string
	for _, r := range f.rets {
		conds = append(conds, r.reach)
	}
	reach := vc.fresh("reach_exit_"+f.fn.Name(), SBool)
	vc.assume(eq(reach, or(conds...)))
	// merge states
	keys := map[string]bool{}
	for _, r := range f.rets {
		for k := range r.st.cells {
			keys[k] = true
		}
	}
	ns := &State{cells: map[string]string{}, gen: f.rets[0].st.gen, cellGen: map[string]int{}}
	for _, r := range f.rets {
		if r.st.gen != ns.gen {
			ns.gen = vc.nextGen()
			break
		}
	}
	for k, g := range f.rets[0].st.cellGen {
		same := true
		for _, r := range f.rets {
			if r.st.genOf(k) != g {
				same = false
			}
		}
		if same {
			ns.cellGen[k] = g
		} else {
			ns.cellGen[k] = vc.nextGen()
		}
	}
	var ks []string
	for k := range keys {
		ks = append(ks, k)
	}
	sort.Strings(ks)
	for _, k := range ks {
		s := vc.cellSort[k]
		var vals []string
		same := true
		for _, r := range f.rets {
			v, ok := r.st.cells[k]
			if !ok {
				v = vc.cellInit(k, s, r.st.genOf(k))
			}
			vals = append(vals, v)
			if v != vals[0] {
				same = false
			}
		}
		if same {
			ns.cells[k] = vals[0]
			continue
		}
		t := vals[len(vals)-1]
		for i := len(vals) - 2; i >= 0; i-- {
			t = ite(f.rets[i].reach, vals[i], t)
		}
		c := vc.fresh(k+"@exit", s)
		vc.assume(eq(c, t))
		ns.cells[k] = c
	}
	// merge results
	n := len(f.rets[0].vals)
	var res []EV
	for i := 0; i < n; i++ {
		first, ok := evAsVal(f.rets[len(f.rets)-1].vals[i])
		if !ok {
			vc.errf("%s: non-scalar result", vc.P.fnKey(f.fn))
			res = append(res, Val{"0", SInt, nil})
			continue
		}
		t := first.t
		for j := len(f.rets) - 2; j >= 0; j-- {
			v, _ := evAsVal(f.rets[j].vals[i])
			t = ite(f.rets[j].reach, v.t, t)
		}
		if len(t) > 80 {
			c := vc.fresh("ret_"+f.fn.Name(), first.s)
			vc.assume(eq(c, t))
			t = c
		}
		rt := f.fn.Signature.Results().At(i).Type()
		res = append(res, Val{t, first.s, rt})
	}
	return res, ns, reach
}

// ---------- contracts at call sites ----------

func (f *Frame) calleeEnv(con *Contract, sig *types.Signature, args []EV, st, old *State, results []EV) *Env {
	env := &Env{f: f, names: map[string]EV{}, st: st, old: old, results: results, pkg: f.vc.P.pkgByName[con.Pkg]}
	names := paramNames(sig, con)
	for i, n := range names {
		if i < len(args) && n != "" && n != "_" {
			env.names[n] = args[i]
		}
	}
	// a parameter that was renamed since the baseline is still known to the contract by its old name (same position, same type)
	if con.Kind == "func" && len(con.Params) == 0 {
		for i, old := range f.vc.P.renamedParams(con.Key, sig) {
			if _, taken := env.names[old]; old != "" && !taken && i < len(args) {
				env.names[old] = args[i]
				f.vc.used["PARAM-RENAMED:"+con.Key+":"+old] = true
			}
		}
	}
	for i := 0; i < sig.Results().Len(); i++ {
		env.resNames = append(env.resNames, sig.Results().At(i).Name())
	}
	return env
}

// paramSig: names and types of the receiver and the parameters, in order.
func paramSig(sig *types.Signature) [][2]string {
	var out [][2]string
	if sig.Recv() != nil {
		out = append(out, [2]string{sig.Recv().Name(), sig.Recv().Type().String()})
	}
	for i := 0; i < sig.Params().Len(); i++ {
		out = append(out, [2]string{sig.Params().At(i).Name(), sig.Params().At(i).Type().String()})
	}
	return out
}

// renamedParams: per position, the name the parameter had when the baseline was recorded, if it differs from the current
// name and arity and types are unchanged; "" otherwise.  The baseline is /verif/expect_params.json (written with
// --update-baseline).  A contract that names a removed parameter stays unevaluable (UNDECIDED).
func (P *Program) renamedParams(key string, sig *types.Signature) []string {
	if P.baseParams == nil {
		P.baseParams = map[string][][2]string{}
		if b, err := os.ReadFile(filepath.Join(P.verifDir, "expect_params.json")); err == nil {
			json.Unmarshal(b, &P.baseParams)
		}
	}
	base, ok := P.baseParams[key]
	cur := paramSig(sig)
	if !ok || len(base) != len(cur) {
		return nil
	}
	out := make([]string, len(cur))
	for i := range cur {
		if base[i][1] != cur[i][1] {
			return nil
		}
		if base[i][0] != cur[i][0] {
			out[i] = base[i][0]
		}
	}
	return out
}

func paramNames(sig *types.Signature, con *Contract) []string {
	var names []string
	if con != nil && len(con.Params) > 0 {
		return con.Params
	}
	if sig.Recv() != nil {
		n := sig.Recv().Name()
		if n == "" || n == "_" {
			n = "self"
		}
		names = append(names, n)
	} else if con != nil && (con.Kind == "iface") {
		names = append(names, "self")
	}
	for i := 0; i < sig.Params().Len(); i++ {
		names = append(names, sig.Params().At(i).Name())
	}
	return names
}

func (f *Frame) applyContract(con *Contract, key string, sig *types.Signature, args []EV, resT types.Type, ord int, pos token.Pos, c *ssa.CallCommon) EV {
	vc := f.vc
	if con.NoBody {
		vc.used["ASSUMED-CONTRACT:"+con.Key] = true
	} else {
		vc.used["USES-CONTRACT:"+con.Key] = true
	}
	// interference (rely): cells that another goroutine may change at any time are havocked before the contract applies,
	// constrained by the rely clauses (old(...) = before the interference).  The callee's contract itself stays the exact
	// sequential contract that its body is verified against.
	if len(con.Interferes) > 0 {
		before := f.cur.clone()
		for _, m := range con.Interferes {
			k := vc.P.modKey(m)
			if _, ok := vc.cellSort[k]; !ok {
				if srt := vc.sortOfCellKey(k); srt != "" {
					f.getCell(f.cur, k, srt)
				}
			}
			if srt, ok := vc.cellSort[k]; ok {
				f.getCell(before, k, srt)
				f.cur.cells[k] = vc.fresh(k+"@interference", srt)
			}
		}
		renv := f.calleeEnv(con, sig, args, f.cur, before, nil)
		for _, r := range con.Rely {
			vc.assume(implies(f.curReach, renv.evalBool(r.E)))
		}
		vc.used["A-RELY:"+con.Key] = true
	}
	pre := f.cur.clone()
	env := f.calleeEnv(con, sig, args, f.cur, nil, nil)
	if !c.IsInvoke() && c.StaticCallee() == nil {
		if fv, ok := evAsVal(f.val(c.Value)); ok {
			env.names["$fn"] = fv
		}
	}
	// the caller's receiver is visible to context-dependent dependency contracts as `caller`
	if len(f.fn.Params) > 0 && f.fn.Signature.Recv() != nil {
		env.names["caller"] = f.vals[f.fn.Params[0]]
	}
	for i, r := range con.Requires {
		t := env.evalBool(r.E)
		label := fmt.Sprintf("call[%s#%d].requires[%s]", shortKey(key), ord, clauseName(r, i))
		o := vc.addObl(f, "pre", label, t, r.Src, pos)
		o.Callee = key
		vc.assume(implies(f.curReach, t))
	}
	// a callee that reorders / overwrites the elements of a slice parameter in place (`modifies backing:<param>`): the slice
	// handed over must not be one the caller's own caller still sees
	for _, m := range con.Modifies {
		if !strings.HasPrefix(m, "backing:") || c == nil {
			continue
		}
		names := paramNames(sig, con)
		for i, n := range names {
			ai := i
			if sig.Recv() != nil && !c.IsInvoke() {
				ai = i // receiver is Args[0] for static calls
			}
			if n != strings.TrimPrefix(m, "backing:") || ai >= len(c.Args) {
				continue
			}
			if si := vc.P.shortInfoOf(f.fn); f.depth == 0 && si.entry[c.Args[ai]] {
				k := vc.callOrd["frame:backing-array-call"]
				vc.callOrd["frame:backing-array-call"] = k + 1
				fo := vc.addObl(f, "frame", fmt.Sprintf("frame[backing-array].a-slice-the-caller-still-sees-is-not-handed-to-%s#%d", shortKey(key), k), "false",
					"a slice that existed at entry is handed to "+key+", which rewrites its elements in place", pos)
				fo.NotExcluded = true
			}
		}
	}
	// havoc frame
	if con.ModAll {
		f.havocHeap()
	} else {
		for _, m := range vc.P.effMods(con) {
			if strings.HasPrefix(m, "backing:") {
				continue
			}
			k := vc.P.modKey(m)
			if _, ok := vc.cellSort[k]; !ok {
				// materialise the cell (sort derived from the declaration) so that the unchanged value on other
				// paths and the havocked value here are related by the join
				if srt := vc.sortOfCellKey(k); srt != "" {
					f.getCell(f.cur, k, srt)
				}
			}
			if s, ok := vc.cellSort[k]; ok {
				f.cur.cells[k] = vc.fresh(k+"@call", s)
			} else {
				delete(f.cur.cells, k)
				f.cur.cellGen[k] = vc.nextGen()
			}
		}
	}
	// the callee may allocate: alive only grows
	if !con.Pure {
		oldAl := f.getCell(f.cur, "ghost:alive", aliveSort)
		newAl := vc.fresh("ghost:alive@call", aliveSort)
		vc.assume(fmt.Sprintf("(forall ((x Int)) (! (=> (select %s x) (select %s x)) :pattern ((select %s x))))", oldAl, newAl, oldAl))
		f.setCell(f.cur, "ghost:alive", aliveSort, newAl)
	}
	// results
	var results []EV
	n := sig.Results().Len()
	var argVals []Val
	allScalar := true
	for _, a := range args {
		v, ok := evAsVal(a)
		if !ok {
			allScalar = false
		}
		argVals = append(argVals, v)
	}
	for i := 0; i < n; i++ {
		rt := sig.Results().At(i).Type()
		if con.Pure && allScalar {
			results = append(results, vc.applyUF(key, sig, argVals, i))
		} else {
			results = append(results, vc.freshVal(fmt.Sprintf("res:%s#%d", shortKey(key), ord), rt))
		}
	}
	for _, r := range results {
		if v, ok := evAsVal(r); ok {
			f.assumeAlive(f.cur, v)
		}
	}
	env2 := f.calleeEnv(con, sig, args, f.cur, pre, results)
	if v, ok := env.names["$fn"]; ok {
		env2.names["$fn"] = v
	}
	if len(f.fn.Params) > 0 && f.fn.Signature.Recv() != nil {
		env2.names["caller"] = f.vals[f.fn.Params[0]]
	}
	for _, e := range con.Ensures {
		if e.BodyOnly {
			continue
		}
		// a clause that cannot be evaluated at a call site (it mentions the callee's locals) is simply not assumed
		var soft []string
		vc.softErr = &soft
		t := env2.evalBool(e.E)
		vc.softErr = nil
		if len(soft) == 0 {
			vc.assume(implies(f.curReach, t))
		}
	}
	for i, e := range con.Assumes {
		t := env2.evalBool(e.E)
		vc.assume(implies(f.curReach, t))
		vc.used["ASSUMED-CLAUSE:"+con.Key+"["+clauseName(e, i)+"] "+e.Src] = true
	}
	for _, e := range con.ObjInv {
		var soft []string
		vc.softErr = &soft
		t := env2.evalBool(e.E)
		vc.softErr = nil
		if len(soft) == 0 {
			vc.assume(implies(f.curReach, t))
		}
	}
	return packResults(results, resT)
}

func shortKey(k string) string {
	if i := strings.LastIndex(k, "/"); i >= 0 {
		return k[i+1:]
	}
	return k
}

// siteAsserts: `assert before call <callee>` clauses of the function under verification.
func (f *Frame) siteAsserts(key string, ord int, args []EV, sig *types.Signature, c *ssa.CallCommon, pos token.Pos) {
	top := f.vc.topFrame
	if top == nil || top.con == nil || f.vc.specMode {
		return
	}
	for _, sa := range top.con.Sites {
		name := key[strings.LastIndex(key, ".")+1:]
		if name != sa.Callee && !(strings.Contains(sa.Callee, ".") && strings.HasSuffix(key, sa.Callee)) {
			continue
		}
		if sa.Ord >= 0 && sa.Ord != ord {
			continue
		}
		sa.Used = true
		env := top.ownEnv(f.cur, top.entry, nil, nil)
		env.f = f
		// call arguments are visible as $0, $1, ... and by the callee's parameter names prefixed with '$'
		for i, a := range args {
			env.names[fmt.Sprintf("$%d", i)] = a
		}
		names := paramNames(sig, nil)
		for i, n := range names {
			if i < len(args) && n != "" {
				env.names["$"+n] = args[i]
			}
		}
		t := env.evalBool(sa.Cl.E)
		label := fmt.Sprintf("site[%s#%d].assert[%s]", shortKey(key), ord, clauseName(sa.Cl, 0))
		f.vc.addObl(f, "site", label, t, sa.Cl.Src, pos)
		f.vc.assume(implies(f.curReach, t))
	}
}

// ---------- builtins ----------

func (f *Frame) execBuiltin(b *ssa.Builtin, c *ssa.CallCommon, result ssa.Value, pos token.Pos) EV {
	vc := f.vc
	switch b.Name() {
	case "len":
		a := f.sval(c.Args[0])
		switch {
		case a.s == SBS:
			return Val{sx("strlen", sx("bs_c", a.t)), SInt, types.Typ[types.Int]}
		case a.s == SStr:
			return Val{sx("strlen", a.t), SInt, types.Typ[types.Int]}
		case strings.HasPrefix(a.s, "Slice_"):
			return Val{sx("len_"+a.s, a.t), SInt, types.Typ[types.Int]}
		}
		if _, ok := c.Args[0].Type().Underlying().(*types.Chan); ok {
			v := vc.freshVal("chanlen", types.Typ[types.Int])
			vc.assume(sx(">=", v.t, "0"))
			return v
		}
		if _, ok := c.Args[0].Type().Underlying().(*types.Map); ok {
			return Val{f.mapLen(f.cur, a.t, c.Args[0].Type()), SInt, types.Typ[types.Int]}
		}
		vc.errf("len of %s unsupported", a.s)
		return vc.freshVal("len", types.Typ[types.Int])
	case "cap":
		a := f.sval(c.Args[0])
		v := vc.freshVal("cap", types.Typ[types.Int])
		if strings.HasPrefix(a.s, "Slice_") {
			vc.assume(sx(">=", v.t, sx("len_"+a.s, a.t)))
		} else {
			vc.assume(sx(">=", v.t, "0"))
			// capacity of a channel is a pure function of the channel
			vc.declareFun("chan_cap", []Sort{SInt}, SInt)
			vc.assume(eq(v.t, sx("chan_cap", a.t)))
		}
		return v
	case "append":
		s := f.sval(c.Args[0])
		if len(c.Args) < 2 {
			return s
		}
		t := f.sval(c.Args[1]) // variadic tail is a slice
		if s.s != SBS {
			vc.appendSeen = vc.P.fset.Position(pos).String()
			vc.appendSeenFn = f.fn
			f.appendToShortened(c, s, t, pos)
		}
		if s.s == SBS {
			r := vc.fresh("appendbytes", SStr)
			vc.assume(eq(sx("strlen", r), sx("+", sx("strlen", sx("bs_c", s.t)), ite(eq(t.s, SBS), sx("strlen", sx("bs_c", t.t)), "0"))))
			return Val{sx("mkBS", r, "false"), SBS, result.Type()}
		}
		// result: first len(s) elements from s, then elements of t
		ls, lt := sx("len_"+s.s, s.t), sx("len_"+t.s, t.t)
		if k, ok := f.constLenSlice(c.Args[1]); ok {
			// append(s, e0, ..., ek-1): explicit stores keep the term quantifier-free
			el := sx("el_"+s.s, s.t)
			for i := 0; i < k; i++ {
				el = sx("store", el, sx("+", ls, fmt.Sprint(i)), sx("select", sx("el_"+t.s, t.t), fmt.Sprint(i)))
			}
			nilT := "false"
			if k == 0 {
				nilT = sx("nil_"+s.s, s.t)
			}
			return Val{sx("mk_"+s.s, nilT, sx("+", ls, fmt.Sprint(k)), el), s.s, result.Type()}
		}
		es := vc.sortOf(vc.S.elemOf[s.s])
		arr := vc.fresh("append", "(Array Int "+es+")")
		vc.assume(fmt.Sprintf("(forall ((k Int)) (! (= (select %s k) (ite (< k %s) (select (el_%s %s) k) (select (el_%s %s) (- k %s)))) :pattern ((select %s k))))",
			arr, ls, s.s, s.t, t.s, t.t, ls, arr))
		return Val{sx("mk_"+s.s, and(sx("nil_"+s.s, s.t), eq(lt, "0")), sx("+", ls, lt), arr), s.s, result.Type()}
	case "delete":
		m := f.sval(c.Args[0])
		k := f.sval(c.Args[1])
		f.mapDelete(f.cur, m.t, c.Args[0].Type(), k.t)
		return Tuple{}
	case "panic":
		f.execPanic(&ssa.Panic{})
		return Tuple{}
	case "close":
		vc.used["A-CHAN"] = true
		ch := f.sval(c.Args[0])
		f.safety("nil-deref", sx("distinct", ch.t, "0"), pos)
		cl := f.getCell(f.cur, "ghost:closed", "(Array Int Bool)")
		f.safety("close-of-closed-channel", not(sx("select", cl, ch.t)), pos)
		f.setCell(f.cur, "ghost:closed", "(Array Int Bool)", sx("store", cl, ch.t, "true"))
		return Tuple{}
	case "ssa:deferstack":
		return Val{"0", SInt, nil}
	case "ssa:wrapnilchk":
		return f.val(c.Args[0])
	case "recover":
		return Val{"(mkI 0 0)", SIface, result.Type()}
	case "copy", "print", "println", "min", "max", "clear", "new":
	}
	vc.errf("%s: builtin %s unsupported", vc.P.fnKey(f.fn), b.Name())
	if result != nil {
		return vc.freshVal(b.Name(), result.Type())
	}
	return Tuple{}
}

// constLenSlice recognises the variadic tail `new [k]T (varargs)[:]` and returns k.
func (f *Frame) constLenSlice(v ssa.Value) (int, bool) {
	if s, ok := v.(*ssa.Slice); ok {
		if pt, ok := s.X.Type().Underlying().(*types.Pointer); ok {
			if at, ok := pt.Elem().Underlying().(*types.Array); ok && s.Low == nil && s.High == nil {
				return int(at.Len()), true
			}
		}
	}
	if c, ok := v.(*ssa.Const); ok && c.Value == nil {
		return 0, true
	}
	return 0, false
}

// sortOfCellKey derives the sort of a heap / ghost cell from its key ("H:pkg.T.f", "ghost:x").
func (vc *VC) sortOfCellKey(k string) Sort {
	if strings.HasPrefix(k, "ghost:") {
		return vc.P.ghosts[k[len("ghost:"):]]
	}
	if !strings.HasPrefix(k, "H:") {
		return ""
	}
	rest := k[2:]
	i := strings.LastIndex(rest, ".")
	if i < 0 {
		return ""
	}
	tn, fn := rest[:i], rest[i+1:]
	for _, p := range vc.P.allTypesPkgs() {
		if !strings.HasPrefix(tn, p.Name()+".") {
			continue
		}
		if o, ok := p.Scope().Lookup(tn[len(p.Name())+1:]).(*types.TypeName); ok {
			if st, ok := o.Type().Underlying().(*types.Struct); ok {
				for j := 0; j < st.NumFields(); j++ {
					if st.Field(j).Name() == fn {
						return "(Array Int " + vc.sortOf(st.Field(j).Type()) + ")"
					}
				}
			}
		}
	}
	return ""
}

// devirtualise: a call of a pure method through an interface that library types implement. Besides the uninterpreted
// result (any implementation, e.g. a consumer's), the result is tied to the real body of every library implementation:
// if the dynamic type is *T then the result is what (*T).M computes in the current state (Go's dynamic dispatch). The
// bodies are the repository's own code, inlined in spec mode (loop-free accessors); nothing is assumed about them.
func (f *Frame) devirtualise(c *ssa.CallCommon, key string, vals []Val, args []EV, r Val) {
	it, ok := c.Value.Type().Underlying().(*types.Interface)
	if !ok {
		return
	}
	f.devirtualiseIn(it, c.Method.Name(), vals, f.cur, r)
}

// devirtualiseIn: the same for a call evaluated in state st (code or contract expression)
func (f *Frame) devirtualiseIn(it *types.Interface, method string, vals []Val, st *State, r Val) {
	vc := f.vc
	if vc.specMode || len(vals) == 0 || vals[0].s != SIface || vc.quantDepth > 0 {
		return
	}
	for _, im := range vc.P.implsOf(it, method) {
		if vc.P.inlining[im.fn] || f.depth >= vc.P.maxInline {
			continue
		}
		recv := Val{sx("i_val", vals[0].t), SInt, im.recvT}
		evs := []EV{recv}
		for _, a := range vals[1:] {
			evs = append(evs, a)
		}
		save := vc.specMode
		vc.specMode = true
		nerr := len(vc.errs)
		res, _, _ := f.inlineCall(im.fn, evs, nil, st.clone(), "true")
		vc.specMode = save
		if len(vc.errs) > nerr {
			vc.errs = vc.errs[:nerr] // a body outside the subset simply yields no fact
			continue
		}
		if len(res) < 1 {
			continue
		}
		rv, ok := evAsVal(res[0])
		if !ok || rv.s != r.s {
			continue
		}
		vc.used["DEVIRTUALISED:"+vc.P.fnKey(im.fn)] = true
		vc.assume(implies(eq(sx("i_typ", vals[0].t), fmt.Sprint(vc.S.typeID(im.recvT))), eq(r.t, rv.t)))
	}
}

type implInfo struct {
	fn    *ssa.Function
	recvT types.Type
}

// implsOf: the library (non-test) pointer types of the repository that implement the interface, with the body of method m
func (P *Program) implsOf(it *types.Interface, m string) []implInfo {
	var out []implInfo
	for _, sp := range P.spkgs {
		if sp == nil || !P.repoPkgs[sp.Pkg.Path()] {
			continue
		}
		for _, mem := range sp.Members {
			tm, ok := mem.(*ssa.Type)
			if !ok {
				continue
			}
			pt := types.NewPointer(tm.Type())
			if _, isIface := tm.Type().Underlying().(*types.Interface); isIface || !types.Implements(pt, it) {
				continue
			}
			sel := P.prog.MethodSets.MethodSet(pt).Lookup(sp.Pkg, m)
			if sel == nil {
				continue
			}
			fn := P.prog.MethodValue(sel)
			if fn == nil || fn.Blocks == nil || !P.isLibrary(fn) {
				continue
			}
			out = append(out, implInfo{fn, pt})
		}
	}
	sort.Slice(out, func(i, j int) bool { return P.fnKey(out[i].fn) < P.fnKey(out[j].fn) })
	return out
}

var stdPurePkgs = map[string]bool{"errors": true, "github.com/pkg/errors": true, "fmt": true, "strings": true, "strconv": true, "bytes": true, "unicode": true, "unicode/utf8": true,
	"math": true, "math/bits": true, "encoding/hex": true, "crypto/sha256": true, "time": true, "path": true, "path/filepath": true}

func stdMutator(name string) bool {
	for _, p := range []string{"Put", "Read", "Write", "Copy", "Fill", "Sort", "Swap", "Store", "Set", "Reset", "After", "Sleep", "New", "Stop", "Tick"} {
		if strings.HasPrefix(name, p) {
			return true
		}
	}
	return false
}
