#!/usr/bin/env python3
import json, sys
pid, wt, out = sys.argv[1], sys.argv[2], sys.argv[3]
n = sys.argv[4] if len(sys.argv) > 4 else "two"
p = [json.loads(l) for l in open('/verif/properties.jsonl') if json.loads(l)['id'] == pid][0]
import glob, os
_k = []
for d in sorted(glob.glob('/verif/seeded/%s-*' % pid)):
    try:
        _k.append("  - " + json.load(open(d + '/meta.json'))['summary'][:260].replace('\n', ' '))
    except Exception:
        pass
known = ("Changes of this kind were already produced by others; yours must be DIFFERENT (another site, another mechanism):\n" + "\n".join(_k)) if _k else ""
print(f"""You are helping to test a verification effort by producing realistic *property-breaking* code changes.

Repository: a Go library (orbs-network/lean-helix-go: Lean Helix, a PBFT-style BFT block consensus with weighted committees, view changes, block proofs).
Your private scratch git worktree of it is at {wt} (a detached checkout). Work ONLY inside {wt} and {out}. Never touch /repo or /verif (do not read them either).

Go environment (no network; every shell command needs these): export GOFLAGS=-mod=mod GOPROXY=off GOSUMDB=off GOTOOLCHAIN=local
Run the existing test suite with: cd {wt} && go test -vet=off -count=1 -timeout 25m ./...   (takes a few minutes; run only the packages you touched while iterating, the full suite once at the end)

The semantic property that must be BROKEN by your change:

  id: {p['id']}  title: {p['title']}
  statement: {p['statement']}
  quantifier: {p['quantifier']['text']}
  why the existing tests cannot settle it: {p['why_tests_cant']}
  anchored in files: {', '.join(p['anchors']['files'])}

Task: produce {n} *different* source changes (each independent, each applied to a clean checkout) to the library's non-test Go code such that, for each:
  1. the repository still compiles (go build ./... and go vet-free test build) and the ENTIRE existing test suite still passes, unedited;
  2. the property above is violated by the changed code for some input / schedule / history;
  3. the violation needs something specific to manifest - an unusual input (boundary value, huge value, duplicate, empty, crafted message), a multi-step sequence of operations, a particular interleaving, or two cooperating sites that each look fine alone - NOT something ordinary use exposes at once. Prefer subtle, plausible-looking edits (an off-by-one, a dropped or weakened check, a swapped comparison or argument, a 'refactor' or 'optimisation' that is almost right) over blatant sabotage; a change a tired reviewer could approve.
  4. you provide a demonstration: a Go test file (or small program) that FAILS with your change applied and PASSES on the unchanged checkout. In-package tests (same package, file name ending _test.go) may call unexported functions. The demonstration must exercise the real code.

Do not edit existing test files, go.mod, or files named contracts_verif.go (they are comment-only and irrelevant). Keep each change small (a few lines). Do not use `git stash` (stashes are shared between worktrees of one repository and other people work in sibling worktrees).
{known}

Deliverables, for change k = 1, 2, ... write into {out}/k/:
  - patch.diff : output of `git -C {wt} diff` for that change alone (relative to the clean checkout; must apply with `git apply` at the repo root)
  - the demonstration file(s), plus demo_path.txt saying where in the repo tree the file must be placed (e.g. services/quorum/zz_demo_test.go) and demo_cmd.txt with the exact `go test ... -run ...` command (run from the repo root) that fails with the change and passes without it
  - meta.json : {{"property": "{p['id']}", "summary": "...what was changed...", "needs": "...what it takes to manifest...", "verified": "...what you ran and observed (unchanged: pass, changed: fail, full suite: pass)..."}}
After producing each change, restore the worktree to clean state (git -C {wt} checkout -- . ; remove untracked demo files) before starting the next. Before finishing, verify for every change: clean tree + demo passes; patched tree + demo fails; patched tree + full existing suite passes. Report a short summary of each change at the end.""")
