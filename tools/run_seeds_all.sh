#!/bin/bash
# run_seeds_all.sh <seed-id ...>: like run_seeds.sh but runs EVERY property check on each seeded change
cd /verif
for s in "$@"; do
  p=/verif/seeded/$s/patch.diff; [ -f /verif/seeded/$s/patch_ported.diff ] && p=/verif/seeded/$s/patch_ported.diff
  out=$(tools/try_all.sh $p 2>&1 | grep -v "^WARNING")
  if echo "$out" | grep -q "does not apply\|not clean"; then printf "%s\tCONFLICT\t\n" "$s"; continue; fi
  det=$(echo "$out" | grep " VIOLATION" | sed 's/^\(C[0-9]*\) VIOLATION property=[A-Z0-9]* replay=\/verif\/replays\/\([^ ]*\)\.json.*/\1:\2/' | tr '\n' ' ')
  und=$(echo "$out" | grep -c " UNDECIDED")
  if [ -n "$det" ]; then st="CAUGHT"; else st="MISSED"; fi
  printf "%s\t%s\tundecided-lines=%s\t%s\n" "$s" "$st" "$und" "$det"
done
