#!/bin/bash
# check_all.sh [--update-baseline]: run every property that has a props file; one summary line each
cd /verif
for f in props/C*.json; do p=$(basename $f .json); ./check $p "$@" 2>&1 | grep -v "^WARNING" | grep "^property\|^VIOLATION\|^UNDECIDED\|^ENGINE" | cut -c1-210 | head -4; done
