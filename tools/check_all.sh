#!/bin/bash
# check_all.sh [--update-baseline]: run every property that has a props file; one summary line each.
# Exit status 1 if any check reports a violation or an engine error (so that `check_all.sh && git commit` refuses a red tree).
cd /verif
bad=0
for f in props/C*.json; do
  p=$(basename $f .json)
  out=$(./check $p "$@" 2>&1); rc=$?
  echo "$out" | grep -v "^WARNING" | grep "^property\|^VIOLATION\|^UNDECIDED\|^ENGINE" | cut -c1-210 | head -4
  [ $rc -ne 0 ] && bad=1
done
[ $bad -ne 0 ] && echo "CHECK_ALL: RED (at least one check exited non-zero)" >&2
exit $bad
