#!/bin/bash
# try_all.sh <patch.diff>: apply to /repo, run every property check, print violations/undecided per property, undo
p=$1
cd /repo && [ -z "$(git status --porcelain)" ] || { echo "/repo not clean"; exit 2; }
(git apply $p 2>/dev/null || git apply -3 $p 2>/dev/null) || { echo "patch does not apply"; git reset -q --hard HEAD; exit 2; }
git reset -q
export GOFLAGS=-mod=mod GOPROXY=off GOSUMDB=off GOTOOLCHAIN=local
go build ./... 2>&1 | head -3
cd /verif
for f in props/C*.json; do prop=$(basename $f .json); ./check $prop 2>&1 | grep "^VIOLATION\|^UNDECIDED" | sed "s/^/$prop /" | cut -c1-260 | head -4; done
git -C /repo reset -q --hard HEAD
