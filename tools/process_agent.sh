#!/bin/bash
# process_agent.sh <PROP> <round>: confirm every change of a finished seeding agent on its own worktree (demo passes clean,
# fails patched, full suite passes patched), keep confirmed ones as /verif/seeded/<PROP>-<n>, remove the worktree
p=$1; r=$2
wt=/tmp/seedwt-$p-r$r; out=/tmp/seedout-$p-r$r
kept=""
for d in $out/[0-9]*; do
  [ -f $d/patch.diff ] || continue
  res=$(/verif/tools/confirm_seed.sh $wt $d full 2>&1)
  if echo "$res" | grep -q "^CONFIRMED" && echo "$res" | grep -q "suite exit=0"; then
    n=1; while [ -d /verif/seeded/$p-$n ]; do n=$((n+1)); done
    /verif/tools/keep_seed.sh $d $p-$n "pending" >/dev/null
    kept="$kept $p-$n"
    echo "KEPT $p-$n <- $d"
  else
    echo "REJECTED $d"; echo "$res" | tail -8
  fi
done
git -C /repo worktree remove --force $wt 2>/dev/null; rm -rf $wt
echo "kept:$kept"
