#!/bin/bash
# run_probes.sh [regex]: run the finding probes against /repo via overlay (nothing is written into /repo)
export GOFLAGS=-mod=mod GOPROXY=off GOSUMDB=off GOTOOLCHAIN=local
re=${1:-TestFinding_}
mkdir -p /verif/.work
cat > /verif/.work/ov_probes.json <<EOT
{"Replace": {"/repo/services/termincommittee/test/zz_findings_test.go": "/verif/findings/zz_findings_test.go.txt", "/repo/zz_findings_root_test.go": "/verif/findings/zz_findings_root_test.go.txt", "/repo/services/termincommittee/test/zz_f14_test.go": "/verif/findings/F14_noncanonical_vote_test.go.txt"}}
EOT
cd /repo && go test -overlay /verif/.work/ov_probes.json -vet=off -count=1 -timeout 120s -run "$re" ./services/termincommittee/test/ . 2>&1 | grep -E "^(--- |ok|FAIL|PASS|panic)" | grep -v "^--- PASS" | head -40
