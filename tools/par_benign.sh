#!/bin/bash
# par_benign.sh <nworkers> <benign-id ...>: false-alarm test.  Applies each behaviour-preserving change kept under
# /verif/benign/<id>/patch.diff to a private clone of /repo and runs EVERY claimed check on it.  Any VIOLATION line is a
# false alarm of the machinery.  Results are appended to /verif/benign/RESULTS.tsv (id, verdict, undecided lines, details).
nw=$1; shift
export GOFLAGS=-mod=mod GOPROXY=off GOSUMDB=off GOTOOLCHAIN=local
# queries in flight per check, so that nw checks side by side do not starve the solvers (a starved solver times out,
# and a timeout on a baseline obligation would be counted as a catch / a false alarm)
export GOVC_CACHE=${GOVC_CACHE:-/var/tmp/govc-cache}
export GOVC_PAR=${GOVC_PAR:-$(( 16 / nw > 2 ? 16 / nw : 2 ))}
ALL="C02 C03 C04 C06 C07 C08 C09 C10 C11 C12 C13 C14 C15 C16 C17 C18 C19 C20"
work() {
  w=$1; shift
  clone=/var/tmp/seedrepo-b$w
  [ -d $clone ] || git clone -q /repo $clone
  git -C $clone fetch -q origin
  git -C $clone reset -q --hard origin/main
  sv=/var/tmp/seedverif-b$w
  mkdir -p $sv && rsync -a --delete --exclude .git --exclude evidence --exclude replays --exclude .work --exclude seeded --exclude benign /verif/ $sv/ && mkdir -p $sv/evidence $sv/replays $sv/bin && cp /verif/bin/govc $sv/bin/govc
  for s in "$@"; do
    p=/verif/benign/$s/patch.diff
    git -C $clone reset -q --hard; git -C $clone clean -fdq
    if ! (cd $clone && (git apply $p 2>/dev/null || git apply -3 $p 2>/dev/null)); then printf "%s\tCONFLICT\t\n" "$s" >> /verif/benign/RESULTS.tsv; continue; fi
    (cd $clone && git reset -q && go build ./... 2>&1 | head -2)
    det=""; und=""
    for q in $ALL; do
      out=$(cd $sv && $sv/bin/govc check -repo $clone -verif $sv $q 2>&1)
      d=$(echo "$out" | grep "^VIOLATION" | sed "s/^VIOLATION property=[A-Z0-9]* replay=[^ ]*\/replays\/\([^ ]*\)\.json.*/$q:\1/" | head -3 | tr '\n' ' ')
      det="$det$d"
      u=$(echo "$out" | grep -c "^UNDECIDED"); [ "$u" != 0 ] && und="$und$q:$u "
    done
    if [ -n "$det" ]; then st=FALSE-ALARM; else st=QUIET; fi
    printf "%s\t%s\tundecided=%s\t%s\n" "$s" "$st" "$und" "$det" >> /verif/benign/RESULTS.tsv
  done
  git -C $clone reset -q --hard; git -C $clone clean -fdq
}
seeds=("$@"); n=${#seeds[@]}
for ((w=0; w<nw; w++)); do
  mine=()
  for ((i=w; i<n; i+=nw)); do mine+=("${seeds[$i]}"); done
  [ ${#mine[@]} -gt 0 ] && work $w "${mine[@]}" &
done
wait
