#!/usr/bin/env python3
# prints the status table of DESIGN.md §9.1 from the evidence files written by the last quick run of every check
import json, glob, os
rows=[]
claimed={}
for f in sorted(glob.glob('/verif/evidence/C*.json')):
    e=json.load(open(f)); c=e['coverage']; claimed[e['property_id']]=(e,c)
print("| id | claimed | category | obligations discharged (quick, unchanged tree) | functions under contract | structural | bounded runs | solver time |")
print("|----|---------|----------|------|------|------|------|------|")
for i in range(1,21):
    pid='C%02d'%i
    if pid not in claimed:
        print(f"| {pid} | no | – | – | – | – | – | not applicable (§5) |"); continue
    e,c=claimed[pid]
    kf=' (1 is K1, printed as KNOWN-FINDING)' if pid=='C07' else ''
    print(f"| {pid} | yes | {e['level']} | {c['discharged']} of {c['obligations']}{kf} | {len(c['functions_under_contract']) if isinstance(c['functions_under_contract'],list) else c['functions_under_contract']} | {len(c['structural']) if isinstance(c.get('structural'),list) else c.get('structural',0)} | {c.get('bounded',0) if not isinstance(c.get('bounded'),list) else len(c['bounded'])} | {c['solver_time_s']:.0f} s |")
