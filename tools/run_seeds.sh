#!/bin/bash
# run_seeds.sh [seed-id ...]: apply every kept seeded change to /repo in turn, run the checks of its property (and related
# ones), record the outcome in /verif/seeded/RESULTS.tsv, undo. /repo must be clean.
cd /verif
declare -A EXTRA=( [C11]="C09 C07 C08 C10" [C16]="C19 C15" [C20]="C02 C03" [C12]="C04" [C14]="C12" [C04]="C07 C12" [C17]="C13" )
seeds="$@"; [ -z "$seeds" ] && seeds=$(ls seeded | grep '^C')
for s in $seeds; do
  prop=${s%-*}
  out=$(tools/try_seed.sh /verif/seeded/$s/patch.diff $prop ${EXTRA[$prop]} 2>&1 | grep -v "^WARNING")
  if echo "$out" | grep -q "does not apply\|conflicts"; then st="CONFLICT"; det="";
  else
    det=$(echo "$out" | grep "^VIOLATION" | sed 's/VIOLATION property=\([A-Z0-9]*\) replay=\/verif\/replays\/\(.*\)\.json.*/\1:\2/' | tr '\n' ' ')
    if [ -n "$det" ]; then st="CAUGHT"; else st="MISSED"; fi
  fi
  printf "%s\t%s\t%s\n" "$s" "$st" "$det"
done
