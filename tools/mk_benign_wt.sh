#!/bin/bash
# mk_benign_wt.sh <tag> <n> <area> <files>: scratch worktree for an agent producing behaviour-preserving changes
t=$1; n=$2; area=$3; files=$4
wt=/tmp/benwt-$t; out=/tmp/benout-$t
git -C /repo worktree remove --force $wt 2>/dev/null; rm -rf $wt $out
git -C /repo worktree add -q --detach $wt HEAD || exit 2
mkdir -p $out
cd $wt
for f in $(git ls-files | grep '_verif.go$'); do git update-index --skip-worktree $f; rm -f $f; done
python3 /verif/tools/agent_prompt_benign.py "$area" "$files" $wt $out $n > $out/PROMPT.txt
echo $out/PROMPT.txt
