#!/usr/bin/env python3
# Regenerates /verif/MANIFEST.json from the claims table below (source of truth for claims and not_applicable).
import json, subprocess

TECH = "contract-based deductive verification: contracts in comment-only files, weakest-precondition VCs generated from go/ssa of the current tree, discharged by z3/cvc5"
ENV = "GOFLAGS=-mod=mod GOPROXY=off GOSUMDB=off GOTOOLCHAIN=local"

claimed = {
 'C06': dict(level='proof', design='4.6',
   text="Every function of services/quorum is verified against mathematical spec functions (SumW, SW, Fz, Qz) for all committees and all 64-bit weights whose total fits 64 bits; the set laws of the property are spec lemmas over those functions, proved by induction and re-checked on every run.",
   note="Trusted: govc (SSA->VC translation), z3/cvc5. Assumed: MemberId.String() (hex) injective (A-HEX). No bound on committee size or weights."),
 'C18': dict(level='proof', design='4.18',
   text="calcLeaderOfViewAndCommittee is proved, for every 64-bit view and every non-empty committee, to return the id of member (view mod n) without panicking; isLeaderOfViewForThisCommittee is proved equivalent to equality with that id; the round-robin bijection is a spec lemma.",
   note="Trusted: govc, z3/cvc5. requires len(committee) >= 1 is established by the TermInCommittee constructor (panicOnLessThanMinimumCommitteeMembers)."),
 'C19': dict(level='proof', design='4.19',
   text="CalcTimeout is proved (bit-vector semantics, all 2^64 views, all positive bases) to return Tspec(base, view) = base*2^view saturating at MaxInt64; positivity, monotonicity, exactness and saturation of Tspec are bit-vector lemmas. Timer races and eventual delivery are not decided (runtime scheduling).",
   note="Trusted: govc, z3/cvc5. Assumed: TIMEOUT_EXP_BASE stays 2.0 (no writer in the library: structural check). Not decided: at-most-one trigger, not-before-timeout, Stop-vs-expiry race, eventual delivery."),
 'C13': dict(level='proof', design='4.13',
   text="State.SetHeightAndResetView / SetView / readers are proved for all field values: success implies strict height increase with view reset (resp. non-decreasing view at the same height), failure leaves the state untouched, so the observable (height, view) never decreases lexicographically and the view is reset exactly when the height increases. One-commit-per-term and round ordering obligations on the worker loop are added as their contracts land.",
   note="Trusted: govc, z3/cvc5. Assumed: sync.RWMutex gives mutual exclusion (A-STD) and only the worker goroutine calls the two setters (structural obligation, being added); receivers non-nil (A-NONNIL)."),
 'C15': dict(level='proof', design='4.15',
   text="The context registry is verified as a data structure for all call orders: For errors iff shut down or below the watermark, otherwise returns the existing context or a fresh child of the parent and changes nothing else; CancelOlderThan (map range with delete) cancels and removes exactly the strictly older positions, keeps all others, raises the watermark monotonically; the invariant 'no context below the watermark' is preserved by both; Shutdown cancels the parent irreversibly. Interleaving with the worker inside an SPI call is not decided.",
   note="Trusted: govc, z3/cvc5. Assumed: context.WithCancel returns a fresh child (A-STD); cancel functions only record cancellation (ghost set). Not decided: wall-clock 'as soon as', scheduling of the two goroutines."),
 'C02': dict(level='proof', design='4.2',
   text="WorkerLoop.ValidateBlockConsensus is proved sound for every proof byte string, block, committee and both modes: nil is returned only if the proof's block reference is a COMMIT for this instance and the block's height whose hash the block satisfies, every node of the proof (all of them are read) carries a signature that verifies over the block reference, belongs to the committee the Membership SPI returns for that height, ids are pairwise distinct, their weight reaches the quorum (strict) or exceeds f (soft) as computed by the verified quorum functions, and the random-seed signature is non-empty and verifies against the seed derived from the previous proof. No index/slice/nil-map panic is possible; GetMemberIdsFromBlockProof returns exactly the node ids or an error for empty input.",
   note="Trusted: govc, z3/cvc5. Assumed (consumer SPI): KeyManager verdicts are functions of (height, bytes, sender id, signature); ValidateBlockCommitment is a pure predicate; committee total weight fits 64 bits. Assumed (membuffers, A-MB-TOTAL/A-ITER): readers never panic, accessors are pure, iterators enumerate a fixed finite sequence; SenderSignatureBuilder.Build round-trips its two fields. CalculateRandomSeed/RandomSeedToBytes are trusted (sha256 outside the subset; only determinism used). The completeness direction (valid proof => nil) is not claimed here."),
 'C17': dict(level='proof', design='4.17',
   text="RawMessageFilter is verified as a data structure for all operation sequences: every delivery site proves height == current height, instance == mine, sender != me; the cache invariant (each cached message sits under its own height, has this instance id and a foreign sender) is preserved by every method; HandleConsensusRawMessage delivers / appends-at-the-end / drops exactly under the stated conditions and clears lower heights when a higher one arrives; ConsumeCacheMessages delivers the cached messages of the new height exactly once and in arrival order (ghost delivery log), stops as soon as a delivery moved the node to another height, and removes the consumed key. The re-entrant path (a delivery that commits and starts the next height) is part of the handler's assumed contract.",
   note="Trusted: govc, z3/cvc5. Assumed: the term re-enters the filter only by advancing the height (handler contract, to be discharged on WorkerLoop); message accessors are pure (A-MB-TOTAL); State.height is only written by the worker goroutine (structural). Proviso of the statement read permissively (eviction by a later higher-height message is allowed), see DESIGN 4.17."),
 'C08': dict(level='proof', design='4.8',
   text="Every site where a received PREPREPARE / PREPARE / COMMIT / VIEW_CHANGE is stored (and thereby counted or answered) proves the statement's conditions as preconditions of the Storage operation: signature verified under the claimed sender, signed type matches, sender is a committee member, height is the node's height (established by the verified raw filter), role fits (leader / non-leader / addressed to me as leader of that view / not stale), proposals satisfy their hash, votes carry a valid prepared proof together with its block. ValidatePreparedProof is proved sound (one (height, earlier view, hash), leader-signed proposal, distinct member prepares, quorum weight, signed types). The four handlers, their helpers and the filter are verified for all message contents and all node states.",
   note="Trusted: govc, z3/cvc5. Assumed: Storage returns only what was stored (A-STORE, abstract log); KeyManager verdict is a function of (height, bytes, id, signature); membuffers accessors pure/total, iterators finite (A-MB-TOTAL, A-ITER); message factory output (trusted contracts, verified under C20 when claimed); receivers / SPI fields non-nil (A-NONNIL). Instance id of nested references (proof refs, votes) is not checked by the code and not claimed."),
 'C07': dict(level='other', design='4.7',
   text="Deductive proof of every C07 obligation except one recorded known finding (K1), hence category other: all obligations but K1 are discharged on every run and K1 is printed as KNOWN-FINDING. HandleNewView adopts a view and a proposal only after proving, at the adoption site: header signed by the leader of that view for this height, all votes read, each vote signed and of VIEW_CHANGE type for exactly (height, view), pairwise distinct senders, quorum weight (verified quorum functions), embedded proposal for that view and height from the leader, and either the highest-proof vote is valid and its hash is the re-proposed hash and the block satisfies it, or the fresh block passed this node's ValidateBlockProposal under a context still live. The leader side (checkElected / onElectedByViewChange) proves the same about the votes it counted before proposing. One obligation is an open known finding (K1): a bare PREPREPARE in the current view > 0 is accepted (an existing test asserts it), so run-level evidence is 'other' with discharged < obligations.",
   note="Trusted: govc, z3/cvc5. Assumed: latestViewChangeVote picks the vote with the highest proof view (sort.Slice, A-SORT; body trusted for now); Storage abstract log; membuffers accessors/iterators; SPI purity. Known finding K1 listed in known_findings.json."),
 'C10': dict(level='proof', design='4.10',
   text="Single-node send log as ghost state: every PREPARE send proves no PREPARE was sent for that view, view == current view, hash == hash of the proposal accepted (first stored) for that view, and this node is not that view's leader; every COMMIT send proves the proposal for that view is accepted with that hash and (site assertion) a prepared certificate or commit quorum for exactly (view, hash) computed from the storage content for that key, and a re-send carries the same hash; every PREPREPARE/NEW_VIEW send proves this node leads the view, the view is current and nothing was proposed for it (with the invariant 'proposed(v) => latest elected view >= v'). The invariant tying the log to the stored proposals is preserved by every handler.",
   note="Trusted: govc, z3/cvc5. Assumed: Storage.StorePreprepare is first-wins and getters enumerate the stored set (A-STORE; InMemoryStorage not yet verified against it); the two 5-line send functions forward the message unchanged (trusted boundary carrying the ghost update); verification covers a term until its commit callback has been invoked. VIEW_CHANGE view monotonicity (moveToNextLeaderByElection) is being added."),
 'C03': dict(level='proof', design='4.3',
   text="At the single call site of the commit callback it is proved: not committed before in this term; at least one commit; every commit handed over is authentic (signature over its header, COMMIT type, canonical header, committee member), all are for one (height == node height, view, hash); the sender list that passed the quorum test is exactly the storage's sender list for that key and enumerates the same messages; the block is the block of the proposal accepted for that view whose header hash is that hash and which satisfies it. Together with the verified acceptance conditions of ValidateBlockConsensus (C02) these are the conditions under which a peer accepts; the remaining link (proof bytes generated from the commits re-read to the same fields) is the wire round-trip assumption A-MB-RT.",
   note="Trusted: govc, z3/cvc5. Assumed: A-STORE; A-MB-RT for BlockProofBuilder/BlockRefBuilder (GenerateLeanHelixBlockProof plumbing being put under contract); A-KM-AGG (aggregated random-seed signature verifies under the master key); peers share committee and previous proof."),
 'C04': dict(level='proof', design='4.4',
   text="Decided locally: the block handed to the commit callback is the block of the proposal stored for the committed view and satisfies the certified hash; every stored proposal was signed (PREPREPARE type) by the leader of its view for the node's height; a proposal is adopted only if this node's ValidateBlockProposal approved it under a context observed live afterwards, or it is the block of the highest valid prepared proof of an accepted NEW_VIEW whose header hash equals the proven hash. Not decided: 'approved on at least one correct member' (needs cross-node quorum intersection).",
   note="Trusted: govc, z3/cvc5. Assumed: A-SPI (ValidateBlockProposal == nil implies the block satisfies the hash; no block satisfies the empty hash), A-STORE. The global clause of the statement is outside single-node contracts."),
 'C09': dict(level='proof', design='4.9',
   text="Proved: the prepared certificate of a node is never dropped or moved to a lower view by any handler within a term (lock-kept postcondition on all handlers); a stored vote has a valid proof and proof and block come together; the elected leader proposes only after the vote obligations of C07, re-proposes the extractor's block with a hash the block satisfies, and requests a fresh block only when the extractor found no vote with a block. Trusted for now: the extractor's choice of the highest-view proof (sort.Slice) and the field-by-field copy of votes into the NEW_VIEW.",
   note="Trusted: govc, z3/cvc5. Assumed: GetLatestBlockFromViewChangeMessages / ExtractConfirmationsFromViewChangeMessages contracts (A-SORT, bodies being put under contract), ExtractPreparedMessages (being put under contract), A-STORE, factory."),
}

na_fixed = {
 'C01': "multi-node, all-schedule agreement: needs a protocol-level inductive invariant over the composition of N nodes (a model-level proof); contracts decide one call or one object. Its single-node premises are checked under C03 C06 C07 C08 C09 C10.",
 'C05': "liveness under partial synchrony over timed multi-node executions: no contract expresses 'eventually' or timers firing.",
}
PENDING = "not yet claimed: the contracts for this property are still being built (DESIGN.md section 8 build order); it is claimed once its obligations discharge on the unchanged tree and its must-fail mutants fail"

props = [json.loads(l) for l in open('/verif/properties.jsonl')]
checks, na = [], dict(na_fixed)
for p in props:
    i = p['id']
    if i in claimed:
        c = claimed[i]
        checks.append(dict(property_id=i, quick_cmd=f"./check {i} --tier quick", thorough_cmd=f"./check {i} --tier thorough",
            evidence_file=f"/verif/evidence/{i}.json", engine="govc",
            level_claimed=dict(category=c['level'], text=c['text'], design_ref=c['design']), level_note=c['note'],
            technique=c.get('technique', TECH), replay_cmd_template="cat {path}"))
    elif i not in na:
        na[i] = PENDING
hooks = subprocess.run("git -C /repo log --format=%h --grep='^verif hooks' --reverse", shell=True, capture_output=True, text=True).stdout.split()
m = dict(version=1,
 setup_cmd=f"cd /verif/govc && {ENV} go build -o /verif/bin/govc . && cd /repo && {ENV} go build ./...",
 hooks=dict(guard="verif", enable="contract files */contracts_verif.go carry '//go:build verif' and contain only comments; govc loads /repo with -tags=verif and reads the //@ lines",
            baseline_off_cmd=f"cd /repo && {ENV} go test -json -vet=off -count=1 -timeout 25m ./...", source_commits=hooks, add_only=True),
 engines=[dict(name="govc", path="/verif/govc", serves_properties=sorted(claimed),
   kind_free_text="home-made deductive verifier for Go: contracts in comment-only files under build tag verif, VCs generated from go/ssa (naive form) of the current /repo tree, SMT-LIB queries raced on z3-new/cvc5/z3, counterexamples replayed on the real code via go test -overlay")],
 checks=checks,
 not_applicable=[dict(property_id=k, reason=v) for k, v in sorted(na.items())],
 notes="All checks rebuild their VCs from /repo's current working tree on every run. Known findings and fixed defects: /verif/known_findings.json. Baseline of discharged obligation labels: /verif/expect.json.")
json.dump(m, open('/verif/MANIFEST.json', 'w'), indent=1)
print("claimed:", sorted(claimed), "n/a:", sorted(na))
