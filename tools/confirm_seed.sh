#!/bin/bash
# confirm_seed.sh <worktree> <seed-dir> [full]  : clean+demo passes, patched+demo fails, (full) patched suite passes
export GOFLAGS=-mod=mod GOPROXY=off GOSUMDB=off GOTOOLCHAIN=local
wt=$1; d=$2; full=${3:-}
cd $wt || exit 2
git checkout -q -- . ; git clean -fdq
dp=$(cat $d/demo_path.txt | head -1 | tr -d ' \r')
cmd=$(cat $d/demo_cmd.txt | grep -v '^#' | grep 'go test\|go run' | head -1)
demo=$(ls $d/*.go 2>/dev/null | head -1)
[ -z "$demo" ] && { echo "NO DEMO FILE"; exit 2; }
mkdir -p $(dirname $dp); cp $demo $dp
echo "== clean: $cmd"; (eval "$cmd") > /tmp/confirm_clean.log 2>&1; c1=$?; echo "clean exit=$c1"
git apply $d/patch.diff || { echo "PATCH DOES NOT APPLY"; exit 2; }
echo "== patched"; (eval "$cmd") > /tmp/confirm_patched.log 2>&1; c2=$?; echo "patched exit=$c2"; tail -5 /tmp/confirm_patched.log
rm -f $dp
if [ -n "$full" ]; then
  go build ./... && go test -vet=off -count=1 -timeout 25m ./... 2>&1 | grep -v "^ok\|no test files" | tail -5; echo "suite exit=${PIPESTATUS[0]}"
fi
git checkout -q -- . ; git clean -fdq
[ $c1 -eq 0 ] && [ $c2 -ne 0 ] && echo "CONFIRMED" || echo "NOT-CONFIRMED"
