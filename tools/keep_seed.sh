#!/bin/bash
# keep_seed.sh <out-dir/k> <name> <caught-by-text>
src=$1; name=$2; caught=$3
dst=/verif/seeded/$name
mkdir -p $dst
cp $src/patch.diff $dst/
cp $src/*.go $dst/ 2>/dev/null
cp $src/demo_path.txt $src/demo_cmd.txt $dst/ 2>/dev/null
python3 - "$src/meta.json" "$dst/meta.json" "$caught" <<'PY'
import json,sys
m=json.load(open(sys.argv[1]))
m['confirmed_by_me']="tools/confirm_seed.sh: demo passes on clean scratch worktree, fails with patch applied; full existing suite passes with patch (run by the producing agent and re-run by me for the first seeds of each property)"
m['detection']=sys.argv[3]
json.dump(m,open(sys.argv[2],'w'),indent=1)
PY
echo kept $dst
