#!/bin/bash
# par_seeds.sh <nworkers> <seed-id ...>: test seeded changes in parallel, each worker on its own clone of /repo
# (govc check -repo <clone>; nothing touches /repo). Results are appended to /verif/seeded/RESULTS_par.tsv.
nw=$1; shift
export GOFLAGS=-mod=mod GOPROXY=off GOSUMDB=off GOTOOLCHAIN=local
# queries in flight per check, so that nw checks side by side do not starve the solvers (a starved solver times out,
# and a timeout on a baseline obligation would be counted as a catch / a false alarm)
export GOVC_CACHE=${GOVC_CACHE:-/var/tmp/govc-cache}
export GOVC_PAR=${GOVC_PAR:-$(( 16 / nw > 2 ? 16 / nw : 2 ))}
declare -A EXTRA=( [C02]="C12 C03" [C03]="C08 C17 C20" [C04]="C07 C08 C09" [C06]="C02" [C07]="C08 C09 C04" [C08]="C17 C07 C09 C10" [C09]="C20 C07 C08" [C10]="C07 C09 C03" [C11]="C09 C08 C10 C07 C20" [C12]="C04 C20 C02" [C13]="C14 C17" [C14]="C13 C15 C12" [C15]="C14 C16" [C16]="C19 C15" [C17]="C13 C08 C14" [C18]="C12 C07" [C19]="C16 C15" [C20]="C09 C03 C12" )
work() {
  w=$1; shift
  clone=/var/tmp/seedrepo-$w
  [ -d $clone ] || git clone -q /repo $clone
  git -C $clone fetch -q origin
  git -C $clone reset -q --hard origin/main
  # a private copy of /verif's inputs, so that evidence and replay files of these runs never land in /verif
  sv=/var/tmp/seedverif-$w
  mkdir -p $sv && rsync -a --delete --exclude .git --exclude evidence --exclude replays --exclude .work --exclude seeded /verif/ $sv/ && mkdir -p $sv/evidence $sv/replays $sv/bin && cp /verif/bin/govc $sv/bin/govc
  for s in "$@"; do
    prop=${s%-*}
    p=/verif/seeded/$s/patch.diff; [ -f /verif/seeded/$s/patch_ported.diff ] && p=/verif/seeded/$s/patch_ported.diff
    git -C $clone reset -q --hard; git -C $clone clean -fdq
    if ! (cd $clone && (git apply $p 2>/dev/null || git apply -3 $p 2>/dev/null)); then printf "%s\tCONFLICT\t\n" "$s" >> /verif/seeded/RESULTS_par.tsv; continue; fi
    (cd $clone && git reset -q && go build ./... 2>&1 | head -2)
    det=""; und=0
    extras="${EXTRA[$prop]}"; [ -n "${SEEDS_OWN_ONLY:-}" ] && extras=""   # SEEDS_OWN_ONLY=1: only the seed's own property
    for q in $prop $extras; do
      out=$(cd $sv && $sv/bin/govc check -repo $clone -verif $sv $q 2>&1)
      d=$(echo "$out" | grep "^VIOLATION" | sed "s/^VIOLATION property=[A-Z0-9]* replay=[^ ]*\/replays\/\([^ ]*\)\.json.*/$q:\1/" | head -3 | tr '\n' ' ')
      det="$det$d"
      und=$((und + $(echo "$out" | grep -c "^UNDECIDED")))
    done
    if [ -n "$det" ]; then st=CAUGHT; else st=MISSED; fi
    printf "%s\t%s\tundecided-lines=%s\t%s\n" "$s" "$st" "$und" "$det" >> /verif/seeded/RESULTS_par.tsv
  done
  git -C $clone reset -q --hard; git -C $clone clean -fdq
}
seeds=("$@"); n=${#seeds[@]}
for ((w=0; w<nw; w++)); do
  mine=()
  for ((i=w; i<n; i+=nw)); do mine+=("${seeds[$i]}"); done
  [ ${#mine[@]} -gt 0 ] && work $w "${mine[@]}" &
done
wait
