#!/bin/bash
# mk_agent_wt.sh <PROP> <round>: scratch worktree of /repo for a seeding sub-agent, contract files hidden
# (skip-worktree + removed, so `git diff` in the worktree shows only the agent's own change); prints the prompt file path
p=$1; r=$2
wt=/tmp/seedwt-$p-r$r; out=/tmp/seedout-$p-r$r
git -C /repo worktree remove --force $wt 2>/dev/null; rm -rf $wt $out
git -C /repo worktree add -q --detach $wt HEAD || exit 2
mkdir -p $out
cd $wt
for f in $(git ls-files | grep 'contracts_verif.go\|_verif.go$'); do git update-index --skip-worktree $f; rm -f $f; done
python3 /verif/tools/agent_prompt.py $p $wt $out two > $out/PROMPT.txt
echo $out/PROMPT.txt
