#!/bin/bash
# try_seed.sh <patch.diff> <PROP> [PROP...] : apply to /repo, run checks, undo
p=$1; shift
cd /repo && git apply $p || { echo "patch does not apply to /repo"; exit 2; }
cd /verif
for prop in "$@"; do ./check $prop 2>&1 | grep -v "^  failed\|^UNDECIDED" | head -8; echo "exit=${PIPESTATUS[0]}"; done
git -C /repo checkout -- . 
