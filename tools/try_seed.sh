#!/bin/bash
# try_seed.sh <patch.diff> <PROP> [PROP...] : apply to /repo (3-way fallback), run checks, undo
p=$1; shift
cd /repo && [ -z "$(git status --porcelain)" ] || { echo "/repo not clean"; exit 2; }
cd /repo && (git apply $p 2>/dev/null || git apply -3 $p 2>/dev/null) || { echo "patch does not apply to /repo"; git reset -q --hard HEAD; exit 2; }
if git diff --name-only --diff-filter=U | grep -q .; then echo "patch conflicts with the current tree"; git reset -q --hard HEAD; exit 2; fi
git reset -q
export GOFLAGS=-mod=mod GOPROXY=off GOSUMDB=off GOTOOLCHAIN=local
go build ./... 2>&1 | head -3
cd /verif
for prop in "$@"; do ./check $prop 2>&1 | grep -v "^  failed\|^UNDECIDED\|^KNOWN" | head -8 | cut -c1-230; echo "exit=${PIPESTATUS[0]}"; done
git -C /repo reset -q --hard HEAD
