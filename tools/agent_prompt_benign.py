#!/usr/bin/env python3
# prompt for a sub-agent producing behaviour-PRESERVING maintenance changes (false-alarm test of the checks)
import sys
area, files, wt, out, n = sys.argv[1], sys.argv[2], sys.argv[3], sys.argv[4], sys.argv[5]
print(f"""You are helping to test a verification effort by producing realistic *behaviour-preserving* maintenance changes (the checks under test must NOT raise an alarm on them).

Repository: a Go library (orbs-network/lean-helix-go: Lean Helix, a PBFT-style BFT block consensus with weighted committees, view changes, block proofs).
Your private scratch git worktree of it is at {wt} (a detached checkout). Work ONLY inside {wt} and {out}. Never touch /repo or /verif (do not read them either).

Go environment (no network; every shell command needs these): export GOFLAGS=-mod=mod GOPROXY=off GOSUMDB=off GOTOOLCHAIN=local
Run the existing test suite with: cd {wt} && go test -vet=off -count=1 -timeout 25m ./...   (takes a few minutes; run only the packages you touched while iterating, the full suite once at the end for each change)

Area to work in ({area}): {files}

Task: produce {n} *different*, independent source changes to the library's non-test Go code in that area, each the kind of commit a maintainer makes routinely and each strictly behaviour-preserving for every input, schedule and history (same messages sent, same state changes, same return values and errors-vs-nil, same blocking/cancellation behaviour, same locking). Vary the kind; examples:
  - rename locals / parameters / unexported helpers; extract a helper function or method from a block of a handler; inline a small helper
  - reorder independent statements; restructure if/else into early returns (or back); replace an index loop by a range loop (or back); replace a switch by if-chains
  - add, remove or reword log lines and error message texts; wrap repeated logging into a helper
  - preallocate slices / maps with capacity; hoist a repeated getter call into a local; small allocation-saving tweaks
  - add a redundant defensive check that can never fire given the existing checks before it; add an unused struct field or a counter that nothing reads
  - split a long function in two; move a function to another file of the same package
Each change should touch real logic-bearing functions (message handlers, validators, the loops, constructors, filters, storage), not just comments, and be moderate in size (5-40 changed lines). At least one change should be a multi-function refactor.
Do not edit existing test files, go.mod, or files named *_verif.go. Do not use `git stash`.

For each change: the repository must compile and the ENTIRE existing test suite must pass, unedited.

Deliverables, for change k = 1, 2, ... write into {out}/k/:
  - patch.diff : output of `git -C {wt} diff` for that change alone (relative to the clean checkout; must apply with `git apply` at the repo root)
  - meta.json : {{"kind": "benign", "summary": "...what was changed...", "why_equivalent": "...short argument that behaviour is unchanged...", "verified": "...what you ran (build, full suite) and observed..."}}
After producing each change, restore the worktree to clean state (git -C {wt} checkout -- . ; remove untracked files) before starting the next. Report a one-line summary of each change at the end.""")
